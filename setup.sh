#!/bin/bash
# Build the framework offline from files on disk: native replay binary, Kani pre-compilation of the dependency graph.
set -u
cd "$(dirname "$0")"
export CARGO_NET_OFFLINE=true
mkdir -p .build/logs evidence replays
cp /repo/Cargo.lock engines/kani/Cargo.lock
( cd engines/kani && CARGO_TARGET_DIR=../../.build/native cargo build --offline --bin replay ) > .build/logs/setup_native.log 2>&1 || { echo "native build failed"; tail -20 .build/logs/setup_native.log; exit 1; }
# pre-compile cwe_checker_lib and the harness crate under Kani (codegen only, no verification)
( cd engines/kani && cargo kani -Z stubbing -Z unstable-options --features c01 --only-codegen --target-dir ../../.build/kani ) > .build/logs/setup_kani.log 2>&1 || { echo "kani codegen failed"; tail -20 .build/logs/setup_kani.log; exit 1; }
cp /repo/Cargo.lock engines/tv/driver/Cargo.lock
( cd engines/tv/driver && CARGO_TARGET_DIR=../../../.build/tv cargo build --offline --release ) > .build/logs/setup_tv.log 2>&1 || { echo "tv driver build failed"; tail -20 .build/logs/setup_tv.log; exit 1; }
python3-vt -c "import z3" || { echo "z3 python bindings missing"; exit 1; }
./check selftest || { echo "translator self-test failed"; exit 1; }
echo "setup ok"
