#!/usr/bin/env python3
"""Apply each seeded mutation to /repo, run the property's check, undo, record whether it was detected.

usage: lib/mutation_test.py [ID-X ...]      (default: all directories under seeded/)
Environment variables are passed through to the checks (e.g. VERIF_ONLY=rv, VERIF_PROGRAMS=...).
Results: seeded/RESULTS.json (merged with earlier results).
"""
import json
import os
import subprocess
import sys
import time

VERIF = os.path.dirname(os.path.dirname(os.path.abspath(__file__)))
REPO = "/repo"


def sh(cmd, **kw):
    return subprocess.run(cmd, shell=True, stdout=subprocess.PIPE, stderr=subprocess.STDOUT, text=True, **kw)


def main():
    ids = sys.argv[1:] or sorted(d for d in os.listdir(os.path.join(VERIF, "seeded")) if os.path.isdir(os.path.join(VERIF, "seeded", d)))
    res_path = os.path.join(VERIF, "seeded", "RESULTS.json")
    results = json.load(open(res_path)) if os.path.exists(res_path) else {}
    if sh("git -C %s status --porcelain" % REPO).stdout.strip():
        print("refusing to run: /repo has uncommitted changes")
        return 1
    head = sh("git -C %s rev-parse --short HEAD" % REPO).stdout.strip()
    for i in ids:
        prop = i.split("-")[0]
        patch = os.path.join(VERIF, "seeded", i, "patch.diff")
        chk = sh("git -C %s apply --check %s" % (REPO, patch))
        if chk.returncode != 0:
            results[i] = {"property": prop, "applies": False, "repo_head": head, "note": chk.stdout.strip()[:300]}
            print(i, "patch does not apply on", head)
            continue
        sh("git -C %s apply %s" % (REPO, patch))
        t0 = time.time()
        try:
            r = sh("cd %s && ./check %s --tier %s" % (VERIF, prop, os.environ.get("TIER", "quick")))
        finally:
            sh("git -C %s checkout -- ." % REPO)
        viol = [l for l in r.stdout.splitlines() if l.startswith("VIOLATION")]
        what = [l.strip() for l in r.stdout.splitlines() if l.strip().startswith("what:")]
        mode = os.environ.get("VERIF_ONLY", "full")
        key = i if mode == "full" else "%s@%s" % (i, mode)
        results[key] = {"property": prop, "applies": True, "repo_head": head, "exit": r.returncode, "detected": r.returncode == 1 and bool(viol),
                      "violations": len(viol), "first": (what[0][:300] if what else ""), "wall_s": round(time.time() - t0, 1),
                      "mode": os.environ.get("VERIF_ONLY", "full")}
        print(key, "detected" if results[key]["detected"] else "MISSED (exit %d)" % r.returncode, "-", results[key]["first"][:150])
        json.dump(results, open(res_path, "w"), indent=1, sort_keys=True)
    json.dump(results, open(res_path, "w"), indent=1, sort_keys=True)
    return 0


if __name__ == "__main__":
    sys.exit(main())
