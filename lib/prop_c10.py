"""C10 — optimizing normalization preserves behaviour (engine T: translation validation with z3)."""
import json
import os
import random
import time

import tv_common as T
from tv_common import z3, symexec, irsmt
from common import VERIF, log, write_evidence, save_replay, finish, seed

import gen_ir

PASSES = ["expression_propagation", "trivial_expression_substitution", "dead_variable_elimination", "control_flow_propagation", "stack_alignment_substitution"]
MAX_VISITS = 14


def sub_of(project, tid="sub_f"):
    return symexec.find_sub(project, tid)


def check_pair(before, after, stats):
    """All functions of the project: None if each is equivalent to its optimized version for all initial states."""
    for s in before["subs"]:
        r = check_sub(before, after, stats, s["tid"])
        if r is not None:
            r["function"] = s["tid"]
            return r
    return None


def check_sub(before, after, stats, tid):
    """Returns None if equivalent for all initial states, else a dict describing a natively confirmed or unconfirmed mismatch."""
    sa, sb = sub_of(before, tid), sub_of(after, tid)
    if sa is None or sb is None:
        return {"what": "function missing after optimization", "confirmed": True, "model": None}
    try:
        symexec.equivalent(before, sa, after, sb, T.state_assumptions(before), MAX_VISITS, stats)
        return None
    except symexec.Mismatch as mm:
        ms = T.ModelState(mm.model)
        # indirect-jump choices are not part of the model; try the default (first target) and all single deviations
        ta, tb = T.concrete_traces(before, sa, after, sb, ms, tuple(mm.choices), MAX_VISITS)
        idx = T.traces_differ(ta, tb)
        return {"what": mm.what, "confirmed": idx is not None, "state": ms.stored, "diff_index": idx, "choices": list(mm.choices),
                "trace_before": repr(ta[idx] if idx is not None and idx < len(ta) else None)[:400],
                "trace_after": repr(tb[idx] if idx is not None and idx < len(tb) else None)[:400]}
    except irsmt.SortError as e:
        return {"what": "ill-sorted program: %s" % e, "confirmed": True, "state": None, "sort_error": True}


def changed(a, b):
    return json.dumps(a["subs"], sort_keys=True) != json.dumps(b["subs"], sort_keys=True)


def run(prop, tier):
    t0 = time.time()
    rng = random.Random(seed() * 7919 + 17)
    budget_s = float(os.environ.get("VERIF_BUDGET_S", "240" if tier == "quick" else "3000"))
    n_random = int(os.environ.get("VERIF_PROGRAMS", "1500" if tier == "quick" else "40000"))
    drv = T.build_driver()
    if drv is None:
        log("driver build failed")
        write_evidence(prop, tier, "translation_validation", {"programs": 0, "disagreements_checked": 0, "samples": [], "evaluations": 0, "distinct_nontrivial": 0}, [], time.time() - t0, 0)
        return 2
    progs = [(k, p) for k, p in gen_ir.templates()]
    n_templates = len(progs)
    progs += [("random", gen_ir.random_project(rng)) for _ in range(n_random)]
    stats = {}
    violations, inconclusive, samples = [], [], []
    fired = {p: 0 for p in PASSES}
    n_checked = n_changed = n_disagree = n_skipped = n_undecided = 0
    kinds = {}
    CH = 200
    for base in range(0, len(progs), CH):
        if time.time() - t0 > budget_s and base >= n_templates:
            break
        chunk = progs[base:base + CH]
        for _, p in chunk:
            p["per_pass"] = True
        try:
            outs = T.run_driver(drv, "optimize", [p for _, p in chunk])
        except Exception as e:  # noqa: BLE001
            inconclusive.append("driver failed on chunk %d: %s" % (base, e))
            break
        for (kind, inp), out in zip(chunk, outs):
            if "panic" in out or "error" in out:
                msg = out.get("panic") or out.get("error")
                path = save_replay(prop, "panic_%d" % n_checked, {"property": prop, "engine": "tv", "program": inp, "panic": msg})
                violations.append({"key": "panic: " + msg.split(":")[0][:80], "what": "pass panics on a generated program: %s" % msg[:200], "replay": path})
                continue
            before, after = out["basic"], out["optimized"]
            for k in ("regs", "sp"):
                before.setdefault(k, inp[k]); after.setdefault(k, inp[k])
            n_checked += 1
            kinds[kind] = kinds.get(kind, 0) + 1
            if changed(before, after):
                n_changed += 1
            for pn in PASSES:
                po = out.get("passes", {}).get(pn)
                if po and "panic" not in po and changed(before, po):
                    fired[pn] += 1
            try:
                res = check_pair(before, after, stats)
            except symexec.PathBudget:
                n_skipped += 1
                continue
            except symexec.Undecided:
                n_undecided += 1
                continue
            except RuntimeError as e:
                inconclusive.append("program %d (%s): %s" % (n_checked, kind, e))
                continue
            if len(samples) < 6 and changed(before, after) and kind != "expr":
                samples.append({"kind": kind, "before": sub_of(before), "after": sub_of(after)})
            if res is None:
                continue
            n_disagree += 1
            if not res["confirmed"]:
                inconclusive.append("solver model for program %d (%s) does not reproduce in the concrete interpreter: %s" % (n_checked, kind, res["what"]))
                continue
            # name the pass: first pass whose own output already differs from the input
            culprit = "combination"
            for pn in PASSES:
                po = out.get("passes", {}).get(pn)
                if po and "panic" not in po:
                    r2 = None
                    try:
                        r2 = check_pair(before, po, {})
                    except (RuntimeError, symexec.PathBudget, symexec.Undecided):
                        pass
                    if r2 is not None and r2["confirmed"]:
                        culprit = pn
                        break
            key = "%s/%s" % (culprit, kind)
            path = save_replay(prop, "%s_%s_%d" % (culprit, kind, n_checked), {"property": prop, "engine": "tv", "program": inp, "state": res.get("state"), "choices": res.get("choices", []), "what": res["what"], "pass": culprit, "function": res.get("function", "sub_f"),
                                                                   "trace_before": res.get("trace_before"), "trace_after": res.get("trace_after")})
            violations.append({"key": key, "what": "%s changes behaviour (%s): %s | before: %s | after: %s" % (culprit, kind, res["what"], res.get("trace_before"), res.get("trace_after")), "replay": path})
    uniq = {}
    for v in violations:
        uniq.setdefault(v["key"], v)
    violations = list(uniq.values())
    coverage = {
        "programs": n_checked,
        "disagreements_checked": n_disagree,
        "samples": samples or [{"note": "no program was changed by the passes"}],
        "programs_changed_by_optimization": n_changed,
        "programs_skipped_path_budget": n_skipped,
        "programs_undecided_solver_timeout": n_undecided,
        "programs_decided": n_checked - n_skipped - n_undecided,
        "programs_per_generator": kinds,
        "passes_fired": fired,
        "path_pairs": stats.get("pairs", 0),
        "queries_discharged": stats.get("queries", 0),
        "solver_s": round(stats.get("solver_s", 0.0), 1),
        "functions_encoded": ["Project::normalize_basic + normalize_optimize (real code, run natively by the driver)", "each of the five passes alone"],
        "bounds": "every function of the project (main function of <= 7 blocks, callee of <= 3 blocks) compared with its optimized version; functions of <= 7 blocks, <= 6 defs per block, expression depth <= 4 (+ pass-internal growth), paths of <= %d block visits (loops cut there, compared as prefixes), 64-bit pointers, little endian; "
                  "for every generated program ALL initial register values, ALL memory contents and ALL call effects are solver variables" % MAX_VISITS,
        "inconclusive": inconclusive[:20],
        "explanation": "program space: %d deterministic templates + seeded random programs; state space: decided by z3 per program" % n_templates,
    }
    assumptions = [
        "z3 (python bindings) is sound for QF_AUFBV; SMT semantics of the IR in engines/tv/irsmt.py (cross-checked against the library's own constant folding at setup: ./check selftest)",
        "stack pointer 16-byte aligned at function entry; 1-byte registers hold 0/1 at entry and after calls (they are flags)",
        "calls: every physical register and all memory are havoced identically on both sides; float/unknown operations are uninterpreted functions",
        "generator constraints listed in engines/tv/gen_ir.py (base registers only, block-local temporaries, return targets are physical registers, SP only changed by +/- const and masks up to 16)",
        "every solver model is replayed by the concrete interpreter (engines/tv/concrete.py) before it is reported",
    ]
    known_keys = {f["key"] for f in __import__("common").load_known(prop)}
    write_evidence(prop, tier, "translation_validation", coverage, assumptions, time.time() - t0, len([v for v in violations if v["key"] not in known_keys]))
    return finish(prop, violations, inconclusive)


def replay(prop, path):
    d = json.load(open(path))
    drv = T.build_driver()
    if drv is None:
        return 2
    inp = d["program"]
    inp["per_pass"] = False
    out = T.run_driver(drv, "optimize", [inp])[0]
    if "panic" in out:
        print("VIOLATION property=%s replay=%s" % (prop, path))
        log("  " + out["panic"])
        return 1
    if d.get("panic"):
        log("replay: the stored panic no longer occurs")
        return 0
    before, after = out["basic"], out["optimized"]
    for k in ("regs", "sp"):
        before.setdefault(k, inp[k]); after.setdefault(k, inp[k])
    ms = T.ModelState(None, d.get("state") or {"regs": {}, "mem": {}, "uf": {}})
    fn = d.get("function", "sub_f")
    ta, tb = T.concrete_traces(before, sub_of(before, fn), after, sub_of(after, fn), ms, tuple(d.get("choices", [])), MAX_VISITS)
    idx = T.traces_differ(ta, tb)
    if idx is not None:
        print("VIOLATION property=%s replay=%s" % (prop, path))
        log("  first differing event %d: before=%r after=%r" % (idx, ta[idx] if idx < len(ta) else None, tb[idx] if idx < len(tb) else None))
        return 1
    log("replay: traces agree on the stored initial state with the current tree")
    return 0
