#!/usr/bin/env python3
"""Render seeded/RESULTS.json + seeded/*/meta.json as the markdown table used in DESIGN.md §8.6."""
import json, os, re
V = os.path.dirname(os.path.dirname(os.path.abspath(__file__)))
res = json.load(open(os.path.join(V, "seeded", "RESULTS.json")))
rows = []
for d in sorted(os.listdir(os.path.join(V, "seeded"))):
    p = os.path.join(V, "seeded", d)
    if not os.path.isdir(p):
        continue
    desc = open(os.path.join(p, "description.md")).read() if os.path.exists(os.path.join(p, "description.md")) else ""
    m = re.search(r"`([^`]*\.rs)`", desc)
    site = os.path.basename(m.group(1)) if m else "?"
    r = res.get(d, {})
    if not r:
        verdict = "not run"
    elif not r.get("applies", True):
        verdict = "patch no longer applies (superseded by a fix commit)"
    elif r.get("detected"):
        verdict = "caught (%s): %s" % ("result-validation part" if r.get("mode") == "rv" else "full quick check", re.sub(r"\s+", " ", r.get("first", ""))[6:110])
    else:
        verdict = "MISSED (exit %s)" % r.get("exit")
    rows.append("| %s | %s | %s |" % (d, site, verdict.replace("|", "/")))
print("| mutation | site | result |\n|---|---|---|")
print("\n".join(rows))
