#!/usr/bin/env python3
"""Render seeded/RESULTS.json + seeded/*/meta.json as the markdown table used in DESIGN.md §8.6."""
import json, os, re
V = os.path.dirname(os.path.dirname(os.path.abspath(__file__)))
res = json.load(open(os.path.join(V, "seeded", "RESULTS.json")))
rows = []
for d in sorted(os.listdir(os.path.join(V, "seeded"))):
    p = os.path.join(V, "seeded", d)
    if not os.path.isdir(p):
        continue
    desc = open(os.path.join(p, "description.md")).read() if os.path.exists(os.path.join(p, "description.md")) else ""
    m = re.search(r"`([^`]*\.rs)`", desc)
    site = os.path.basename(m.group(1)) if m else "?"
    parts = []
    for key, label in ((d + "@first", "quick check before the generator was strengthened"), (d, "quick check"), (d + "@kani", "Kani part alone"), (d + "@rv", "result-validation part alone")):
        r = res.get(key)
        if not r:
            continue
        if not r.get("applies", True):
            parts.append("patch no longer applies (superseded by a fix commit)")
        elif r.get("detected"):
            parts.append("caught by the %s: %s" % (label, re.sub(r"\s+", " ", r.get("first", ""))[6:100]))
        else:
            if r.get("exit") == 2:
                parts.append("inconclusive in the %s (exit 2: a harness failed or timed out without a natively replayed counterexample; never reported as held)" % label)
            else:
                parts.append("MISSED by the %s (exit %s)" % (label, r.get("exit")))
    rows.append("| %s | %s | %s |" % (d, site, ("; ".join(parts) or "not run").replace("|", "/")))
print("| mutation | site | result |\n|---|---|---|")
print("\n".join(rows))
