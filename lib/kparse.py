import re,sys
def parse(log):
    cur={};res={};last=None
    for line in log.splitlines():
        m=re.match(r'(?:Thread (\d+): )?Checking harness (\S+)\.\.\.',line)
        if m:
            t=m.group(1) or '0'; cur[t]=m.group(2); res.setdefault(m.group(2),{'failed':[]}); last=t; continue
        m=re.match(r'Thread (\d+):\s*$',line)
        if m: last=m.group(1); continue
        if last is None: continue
        h=cur.get(last)
        if h is None: continue
        r=res[h]
        if line.startswith('VERIFICATION:-'): r['status']=line.split(':-')[1].strip()
        elif line.startswith('Verification Time'): r['time']=float(line.split(':')[1].strip()[:-1])
        elif 'timed out' in line: r['why']='timeout'
        elif 'out of memory' in line: r['why']='oom'
        elif line.startswith('Failed Checks:'): r['failed'].append(line[len('Failed Checks:'):].strip())
        elif 'cover properties satisfied' in line:
            m=re.search(r'(\d+) of (\d+) cover',line); r['cover']=(int(m.group(1)),int(m.group(2)))
        elif re.match(r'\s*\*\* (\d+) of (\d+) failed',line):
            m=re.match(r'\s*\*\* (\d+) of (\d+) failed',line); r['checks']=int(m.group(2)); r['nfailed']=int(m.group(1))
    return res
if __name__=='__main__':
    for k,v in sorted(parse(open(sys.argv[1]).read()).items()): print(k,v)
