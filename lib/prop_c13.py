"""C13 — pointer inference never excludes values that can occur at runtime (engine T: result validation).

The REAL `compute_function_signatures` + `pointer_inference::run` run natively on a generated single-function
project; z3 then checks, for ALL initial states and ALL paths of bounded length, that at every block start the
concrete register values are members of the abstract values the analysis computed for that block
(parameter identifiers read as entry values, the stack identifier as the entry stack pointer), that blocks
without analysis state are unreachable, and does so under the rule that accesses to (-1024, 1024) abort a run.
"""
import json
import os
import random
import time

import tv_common as T
from tv_common import z3, symexec, irsmt, concrete
from common import log, write_evidence, save_replay, finish, seed
import rv_domain as RV
import gen_ir

MAX_VISITS = 10
FN = "sub_f"
# concrete model of a call to an extern function (see explore_blocks); callee-saved registers as in gen_ir.project()
PURE_EXTERN = {"callee_saved": ["RBX", "RBP"], "sp_pop": 8}


def explore_blocks(project, sub, max_visits):
    """Like symexec.explore, but records (block tid, path condition, register lookup) at every block entry.
    No calls are generated for this property. Accesses to (-1024, 1024) end the path."""
    blocks = {b["tid"]: b for b in sub["blocks"]}
    records = []
    st0 = symexec.State(project)
    st0.heap = {}
    work = [(sub["blocks"][0]["tid"], st0, [], 0)]
    n_paths = 0
    while work:
        tid, st, pc, visits = work.pop()
        blk = blocks.get(tid)
        if blk is None or visits >= max_visits:
            n_paths += 1
            continue
        if n_paths + len(work) > 300:
            raise symexec.PathBudget("path budget")
        records.append((tid, list(pc), cp(st), visits))
        enc = irsmt.Encoder(st.lookup)
        for d in blk["defs"]:
            if d["k"] == "assign":
                st.assign(d["var"], enc.enc(d["value"]))
            else:
                a = enc.enc(d["address"])
                pc = pc + [z3.Or(a <= z3.BitVecVal(-1024, 64), a >= z3.BitVecVal(1024, 64))]
                if d["k"] == "load":
                    st.assign(d["var"], st.load(a, d["var"]["size"]))
                else:
                    v = enc.enc(d["value"])
                    st.store(a, v, v.size() // 8)
        jmps = blk["jmps"]
        if not jmps or jmps[-1]["k"] == "return":
            n_paths += 1
            if jmps and jmps[0]["k"] == "cbranch":
                c = enc.enc(jmps[0]["cond"])
                work.append((jmps[0]["target"], cp(st), pc + [c != 0], visits + 1))
            continue
        idx = 0
        if jmps[0]["k"] == "cbranch":
            c = enc.enc(jmps[0]["cond"])
            work.append((jmps[0]["target"], cp(st), pc + [c != 0], visits + 1))
            pc = pc + [c == 0]
            idx = 1
            if len(jmps) == 1:
                n_paths += 1
                continue
        j = jmps[idx]
        if j["k"] == "branch":
            work.append((j["target"], st, pc, visits + 1))
        elif j["k"] == "call" and j.get("ret") is not None:
            # extern callee modelled as a pure function (one admissible behaviour of any extern symbol): callee-saved
            # registers and all memory survive, the return address is popped, every other register is arbitrary
            k = st.calls
            st.calls += 1
            spn = project["sp"]["name"]
            for r in project["regs"]:
                key = (r["name"], r["size"])
                if r["name"] == spn:
                    st.regs[key] = st.lookup(r["name"], r["size"], False) + z3.BitVecVal(PURE_EXTERN["sp_pop"], r["size"] * 8)
                elif r["name"] not in PURE_EXTERN["callee_saved"]:
                    st.regs[key] = z3.BitVec("havoc%d_%s_%d" % (k, r["name"], r["size"]), r["size"] * 8)
            st.temps = {}
            if j.get("target") == "ext_malloc":
                # the returned pointer is NULL or the address of a fresh object far away from address 0, from the stack and
                # from every object allocated before (the analysis' no-aliasing assumption for heap objects)
                ptr = st.regs[("RAX", 8)]
                far = z3.BitVecVal(1 << 16, 64)
                others = [z3.BitVecVal(0, 64), z3.BitVec("r0_RSP_8", 64)] + [h for hs in st.heap.values() for h in hs]
                apart = [z3.And(z3.UGE(ptr - o, far), z3.UGE(o - ptr, far)) for o in others]
                pc = pc + [z3.Or(ptr == 0, z3.And(*apart))]
                st.heap = dict(st.heap)
                st.heap[j["tid"]] = st.heap.get(j["tid"], []) + [ptr]
            work.append((j["ret"], st, pc, visits + 1))
        else:
            n_paths += 1
    return records


def cp(st):
    c = st.copy()
    c.heap = {k: list(v) for k, v in st.heap.items()}
    return c


def gamma(val, data, stack_id, entry, heap=None, malloc_sites=()):
    """z3 predicate 'val in gamma(data)' or None if the abstract value does not constrain val (Top / untracked identifiers)."""
    if data["top"]:
        return None
    if val.size() != data["size"] * 8:
        return z3.BoolVal(False)
    alts = []
    if data["abs"] is not None:
        alts.append(RV.member(val, data["abs"]))
    for rel in data["rel"]:
        i = rel["id"]
        if i["display"] == stack_id["display"]:
            base = entry("RSP", 8)
        elif "reg" in i["loc"] and i["tid"] == FN:
            base = entry(i["loc"]["reg"], i["loc"]["size"])
        elif heap is not None and i["tid"] in malloc_sites and i["loc"].get("reg") == "RAX":
            # heap object allocated at this call site: any of the pointers returned there on this path
            for h in heap.get(i["tid"], []):
                alts.append(RV.member(val - h, rel["offset"]))
            continue
        else:
            return None  # identifier of an object the reference semantics does not track: no constraint (weaker, never alarming)
        alts.append(RV.member(val - base, rel["offset"]))
    return z3.Or(*alts) if alts else z3.BoolVal(False)


def gamma_c(v, data, stack_id, entry, heap_c=None, malloc_sites=()):
    if data["top"]:
        return True
    ok = data["abs"] is not None and RV.member_c(v, data["abs"])
    for rel in data["rel"]:
        i = rel["id"]
        if i["display"] == stack_id["display"]:
            base = entry("RSP", 8)
        elif "reg" in i["loc"] and i["tid"] == FN:
            base = entry(i["loc"]["reg"], i["loc"]["size"])
        elif heap_c is not None and i["tid"] in malloc_sites and i["loc"].get("reg") == "RAX":
            for h in heap_c.get(i["tid"], []):
                ok = ok or RV.member_c((v - h) & RV.M(64), rel["offset"])
            continue
        else:
            return True
        ok = ok or RV.member_c((v - base) & RV.M(64), rel["offset"])
    return ok


def check_project(inp, out, stats):
    """Returns None or a dict describing a concretely confirmed violation."""
    proj = out["project"]
    for k in ("regs", "sp"):
        proj.setdefault(k, inp[k])
    sub = symexec.find_sub(proj, FN)
    recs = explore_blocks(proj, sub, MAX_VISITS)
    solver = z3.Solver()
    solver.set("timeout", 4000)
    for a in T.state_assumptions(proj):
        solver.add(a)
    # the stack frame is far away from the absolute addresses the generated code touches (no aliasing of stack slots with them)
    sp0 = z3.BitVec("r0_RSP_8", 64)
    solver.add(z3.Or(sp0 > z3.BitVecVal(1 << 16, 64), sp0 < z3.BitVecVal(-(1 << 16), 64)))
    entry = lambda name, size: z3.BitVec("r0_%s_%d" % (name, size), size * 8)  # noqa: E731
    # pointer parameters (dereferenced at small constant offsets): the objects they point to are far away from address 0,
    # from the stack frame and from each other -- the aliasing assumption the analysis makes for parameter objects
    far = z3.BitVecVal(1 << 16, 64)
    bases = [sp0] + [entry(r, 8) for r in inp.get("ptr_regs", [])]
    for i, b in enumerate(bases[1:], 1):
        solver.add(z3.Or(b > far, b < -far))
        for o in bases[:i]:
            solver.add(z3.UGE(b - o, far), z3.UGE(o - b, far))

    def q(*cs):
        t0 = time.time()
        solver.push()
        for c in cs:
            solver.add(c)
        r = solver.check()
        m = solver.model() if r == z3.sat else None
        solver.pop()
        stats["queries"] = stats.get("queries", 0) + 1
        stats["solver_s"] = stats.get("solver_s", 0.0) + time.time() - t0
        if r == z3.unknown:
            stats["undecided"] = stats.get("undecided", 0) + 1
            return None, None
        return r == z3.sat, m

    malloc_sites = {j["tid"] for b in sub["blocks"] for j in b["jmps"] if j["k"] == "call" and j.get("target") == "ext_malloc"}
    for (tid, pc, st, visits) in recs:
        node = out["nodes"].get(tid)
        stats["block_visits"] = stats.get("block_visits", 0) + 1
        if node is None:
            continue
        if not node["state"]:
            s, m = q(*pc)
            if s:
                r = confirm(proj, sub, m, tid, visits, None, None, node)
                if r:
                    return dict(r, what="block %s has no analysis state (considered unreachable) but is reached" % tid, kind="unreachable block reached")
            continue
        for reg, data in sorted(node["regs"].items()):
            size = data["size"]
            val = st.lookup(reg, size, False)
            g = gamma(val, data, node["stack_id"], entry, st.heap, malloc_sites)
            if g is None:
                continue
            if any(r["id"]["tid"] in malloc_sites for r in data["rel"]):
                stats["heap_pointer_checks"] = stats.get("heap_pointer_checks", 0) + 1
            stats["register_checks"] = stats.get("register_checks", 0) + 1
            s, m = q(*(pc + [z3.Not(g)]))
            if s:
                r = confirm(proj, sub, m, tid, visits, reg, data, node, malloc_sites)
                if r:
                    return dict(r, what="at the start of %s register %s can hold %#x which is not represented by %s" % (tid, reg, r["value"], json.dumps(data)[:300]), kind="register value not represented")
                stats["unconfirmed_models"] = stats.get("unconfirmed_models", 0) + 1
    return None


def confirm(proj, sub, model, tid, visits, reg, data, node, malloc_sites=()):
    """Replay the model concretely: is block `tid` entered as the (visits+1)-th block with a value outside gamma?"""
    ms = T.ModelState(model)
    seen = []
    heap_now = {}

    def on_block(t, env):
        seen.append((t, {r["name"]: env(r["name"], r["size"], False) for r in proj["regs"]}, {k: list(v) for k, v in heap_now.items()}))

    def on_call(k, j, hr):
        if j.get("target") == "ext_malloc":
            heap_now.setdefault(j["tid"], []).append(hr("RAX", 8, False) & RV.M(64))

    concrete.run(proj, sub, ms.reg(-1), ms.mem(-1), ms.havoc, ms.oracle, MAX_VISITS, (), on_block=on_block, abort_null=True, pure_extern=dict(PURE_EXTERN, on_call=on_call))
    if len(seen) <= visits or seen[visits][0] != tid:
        return None
    regs = seen[visits][1]
    entry = lambda name, size: ms.reg(-1)(name, size, False)  # noqa: E731
    if reg is None:
        return {"state": ms.stored, "value": 0, "visits": visits}
    v = regs[reg]
    if gamma_c(v, data, node["stack_id"], entry, seen[visits][2], malloc_sites):
        return None
    return {"state": ms.stored, "value": v, "visits": visits, "register": reg}


def run(prop, tier):
    t0 = time.time()
    rng = random.Random(seed() * 2654435761 % (1 << 32) + 13)
    budget_s = float(os.environ.get("VERIF_BUDGET_S", "300" if tier == "quick" else "3000"))
    n_random = int(os.environ.get("VERIF_PROGRAMS", "3000" if tier == "quick" else "40000"))
    drv = T.build_driver()
    if drv is None:
        return 2
    stats = {}
    violations, inconclusive, samples = [], [], []
    n_prog = n_unstable = n_skipped = n_disagree = 0
    scope_count, extended = {}, []
    CH = 50
    done = 0
    while done < n_random and time.time() - t0 < budget_s:
        chunk = [gen_ir.random_pi_project(rng) for _ in range(CH)]
        done += CH
        try:
            outs = T.run_driver(drv, "pi", chunk, timeout=900)
        except Exception as e:  # noqa: BLE001
            inconclusive.append("driver failed: %s" % e)
            break
        for inp, out in zip(chunk, outs):
            if "panic" in out or "error" in out:
                msg = out.get("panic") or out.get("error")
                path = save_replay(prop, "panic_%d" % n_prog, {"property": prop, "engine": "tv", "program": inp, "panic": msg})
                violations.append({"key": "panic: " + msg[:60], "what": "the analysis panics on a generated function: %s" % msg[:300], "replay": path})
                continue
            if not out["stabilized"]:
                n_unstable += 1
                continue
            n_prog += 1
            try:
                res = check_project(inp, out, stats)
            except symexec.PathBudget:
                n_skipped += 1
                continue
            except irsmt.SortError as e:
                inconclusive.append("ill-sorted generated program: %s" % e)
                continue
            if len(samples) < 3 and any(n.get("state") for n in out["nodes"].values()) and rng.random() < 0.05:
                samples.append({"function": symexec.find_sub(out["project"], FN), "analysis_at_block_starts": {k: {r: v for r, v in n.get("regs", {}).items() if r in ("RAX", "RCX", "RSP")} for k, n in out["nodes"].items()}})
            scope_count[inp.get("scope", "stated")] = scope_count.get(inp.get("scope", "stated"), 0) + 1
            if res is None:
                continue
            n_disagree += 1
            key = "C13 %s" % res["kind"]
            path = save_replay(prop, "%s_%d" % (res["kind"].replace(" ", "_"), n_prog), {"property": prop, "engine": "tv", "program": inp, "state": res["state"], "what": res["what"], "kind": res["kind"], "scope": inp.get("scope", "stated")})
            if inp.get("scope", "stated") == "extended":
                # outside the program class the property text quantifies over: reported, never a VIOLATION of C13
                extended.append({"what": res["what"], "replay": path})
                print("NOTE property=C13 extended-scope disagreement (program uses pointer parameters, extern calls, heap objects or register-addressed loads, which the property text does not quantify over): %s replay=%s" % (res["what"][:200], path), flush=True)
                continue
            violations.append({"key": key, "what": res["what"], "replay": path})
    uniq = {}
    for v in violations:
        uniq.setdefault(v["key"], v)
    violations = list(uniq.values())
    coverage = {
        "programs": n_prog, "programs_per_scope": scope_count, "extended_scope_disagreements": extended[:10], "disagreements_checked": n_disagree, "samples": samples or [{}],
        "programs_without_fixpoint_skipped": n_unstable, "programs_skipped_path_budget": n_skipped,
        "block_visits_checked": stats.get("block_visits", 0), "register_membership_queries": stats.get("register_checks", 0), "of_which_heap_pointer_values": stats.get("heap_pointer_checks", 0),
        "queries_discharged": stats.get("queries", 0), "solver_s": round(stats.get("solver_s", 0.0), 1), "queries_undecided_solver_timeout": stats.get("undecided", 0),
        "models_not_confirmed_concretely": stats.get("unconfirmed_models", 0),
        "functions_encoded": ["function_signature::compute_function_signatures + pointer_inference::run (real code, run natively) on the basic-normalized project",
                              "State::get_register at every BlkStart node (values compared with all concrete executions)"],
        "bounds": "single functions of 2..6 blocks, <= 6 instructions per block, loops unrolled to %d block visits; registers, stack memory at constant offsets, parameter-object memory at constant offsets; calls to extern functions (malloc, a generic two-parameter function); ALL initial register/memory states symbolic" % MAX_VISITS,
        "inconclusive": inconclusive[:10],
    }
    assumptions = [
        "gamma(value) = top flag, or absolute strided interval, or entry value of the identifier + offset interval; parameter identifiers = register values at function entry, stack identifier = stack pointer at entry; "
        "heap identifier of a malloc call site = any pointer returned by that call on the path (NULL, or a fresh object at least 2^16 bytes away from address 0, the stack and earlier objects); a value mentioning any other identifier (nested, global) is treated as unconstrained (makes the check weaker, never alarming)",
        "accesses to addresses in (-1024, 1024) abort the run; the stack pointer is 16-byte aligned at entry and at least 2^16 away from address 0 (stack slots do not alias the absolute addresses used); 1-byte registers hold 0/1",
        "memory is only accessed through the stack/frame pointer at constant offsets, at constant absolute addresses, or through pointer parameters (registers the function never overwrites) at small constant offsets; "
        "the objects pointer parameters point to are at least 2^16 bytes away from address 0, from the entry stack pointer and from each other (the analysis' no-aliasing assumption for parameter objects)",
        "calls go to extern functions only and the callee is modelled as a pure function, which is one admissible behaviour of any extern symbol: callee-saved registers (RBX, RBP) and all memory survive, "
        "the return address is popped (stack pointer + 8, as the analysis assumes for x86), every other register and flag holds an arbitrary value (flags 0/1) afterwards",
        "programs are generated in two classes: 'stated' = the class the property text quantifies over (registers, comparisons, stack memory at constant offsets, constant absolute addresses) and "
        "'extended' = additionally pointer parameters, extern calls, heap objects, register-addressed loads; a disagreement on a 'stated' program is a VIOLATION, one on an 'extended' program is printed as NOTE and listed under extended_scope_disagreements without failing the check",
        "only analysis runs that reach their fixpoint are judged; every solver model is replayed by the concrete interpreter before it is reported",
    ]
    known_keys = {f["key"] for f in __import__("common").load_known(prop)}
    write_evidence(prop, tier, "translation_validation", coverage, assumptions, time.time() - t0, len([v for v in violations if v["key"] not in known_keys]))
    return finish(prop, violations, inconclusive)


def replay(prop, path):
    d = json.load(open(path))
    drv = T.build_driver()
    if drv is None:
        return 2
    out = T.run_driver(drv, "pi", [d["program"]])[0]
    if "panic" in out:
        print("VIOLATION property=%s replay=%s" % (prop, path))
        return 1
    if not out["stabilized"]:
        log("replay: the analysis does not reach its fixpoint on this program any more")
        return 0
    res = check_project(d["program"], out, {})
    if res is not None and d["program"].get("scope", "stated") == "extended":
        print("NOTE property=%s extended-scope disagreement reproduces: %s replay=%s" % (prop, res["what"][:200], path))
        return 0
    if res is not None:
        print("VIOLATION property=%s replay=%s" % (prop, path))
        log("  " + res["what"][:400])
        return 1
    log("replay: the analysis result covers all executions of the stored program with the current tree")
    return 0
