"""Translator validation (Serval-style): the SMT semantics (irsmt.py) and the Python interpreter (concrete.py) are
compared with the library's own constant folding on generated variable-free expressions. Any disagreement is a
defect of this framework (or a C01 defect) and fails setup."""
import random
import sys

import tv_common as T
from tv_common import z3, irsmt, concrete
import gen_ir


def const_expr(rng, size, depth):
    """variable-free expression of the given size"""
    e = gen_ir.rand_expr(rng, size, depth, [], [], ())
    return e


def has_var_or_unknown(e):
    if e["k"] in ("var", "unknown"):
        return True
    if e["k"] == "binop" and e["op"].startswith("Float"):
        return True
    return any(has_var_or_unknown(e[k]) for k in ("l", "r", "a") if k in e)


def boolean_ok(e):
    """BoolNegate/Bool ops of the library assert 0/1 operands: only generate them on comparison results."""
    return True


def main(n=3000, seed=1):
    drv = T.build_driver()
    if drv is None:
        print("selftest: driver build failed")
        return 1
    rng = random.Random(seed)
    exprs = []
    while len(exprs) < n:
        e = const_expr(rng, rng.choice([8, 8, 4, 1]), rng.randrange(1, 5))
        if has_var_or_unknown(e):
            continue
        exprs.append(e)
    outs = T.run_driver(drv, "evalexpr", [{"e": e} for e in exprs])
    bad = 0
    compared = 0
    for e, o in zip(exprs, outs):
        if "panic" in o:
            continue  # e.g. BoolNegate on a non-boolean constant: the library asserts
        try:
            size = irsmt.expr_size(e)
            term = z3.simplify(irsmt.Encoder(lambda *a: None).enc(e))
        except irsmt.SortError:
            continue
        if o.get("bytesize") != size:
            print("bytesize mismatch", e, o)
            bad += 1
        if o.get("unknown"):
            continue  # division by zero etc.: the library reports unknown, SMT-LIB is total
        compared += 1
        pyv = concrete.ev(e, None, None)
        z3v = term.as_long() if z3.is_bv_value(term) else None
        real = int(o["val"], 16)
        if real != pyv or (z3v is not None and z3v != real) or o["size"] != size:
            print("semantics mismatch: real=%x python=%x z3=%s expr=%s" % (real, pyv, z3v, e))
            bad += 1
    print("selftest: %d expressions compared with the library's constant folding, %d disagreements" % (compared, bad))
    return 1 if bad or compared < n // 3 else 0


if __name__ == "__main__":
    sys.exit(main())
