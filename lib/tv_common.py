"""Shared plumbing of engine T: build and run the native driver, model extraction, concrete replay."""
import json
import os
import subprocess
import sys

from common import VERIF, REPO, BUILD, env_offline, log, crate_dir

TV = os.path.join(VERIF, "engines", "tv")
sys.path.insert(0, TV)
TVTARGET = os.path.join(BUILD, "tv")

import z3  # noqa: E402
import irsmt  # noqa: E402
import symexec  # noqa: E402
import concrete  # noqa: E402


def build_driver():
    d = crate_dir(os.path.join("engines", "tv", "driver"))
    try:
        src = open(os.path.join(REPO, "Cargo.lock"), "rb").read()
        dst = os.path.join(d, "Cargo.lock")
        if not os.path.exists(dst) or open(dst, "rb").read() != src:
            open(dst, "wb").write(src)
    except OSError:
        pass
    e = env_offline()
    e["CARGO_TARGET_DIR"] = TVTARGET
    p = subprocess.run(["cargo", "build", "--offline", "--release"], cwd=d, env=e, stdout=subprocess.PIPE, stderr=subprocess.STDOUT, text=True)
    if p.returncode != 0:
        log(p.stdout[-4000:])
        return None
    return os.path.join(TVTARGET, "release", "tvdriver")


def run_driver(binary, cmd, inputs, timeout=600):
    """inputs: list of JSON-able objects; returns list of parsed outputs (same order)."""
    data = "\n".join(json.dumps(i) for i in inputs) + "\n"
    p = subprocess.run([binary, cmd], input=data, stdout=subprocess.PIPE, stderr=subprocess.PIPE, text=True, timeout=timeout)
    outs = [json.loads(l) for l in p.stdout.splitlines() if l.strip()]
    if len(outs) != len(inputs):
        raise RuntimeError("driver %s returned %d results for %d inputs (rc=%s): %s" % (cmd, len(outs), len(inputs), p.returncode, p.stderr[-2000:]))
    return outs


# ---------------------------------------------------------------- assumptions on the initial state

def state_assumptions(project, max_calls=40):
    """Stack pointer aligned at function entry; 1-byte registers are flags holding 0/1 (at entry and after calls)."""
    a = []
    sp = project["sp"]
    spv = z3.BitVec("r0_%s_%d" % (sp["name"], sp["size"]), sp["size"] * 8)
    a.append(spv & z3.BitVecVal(0xF, sp["size"] * 8) == 0)
    for r in project["regs"]:
        if r["size"] == 1:
            a.append(z3.ULE(z3.BitVec("r0_%s_1" % r["name"], 8), 1))
            for k in range(max_calls):
                a.append(z3.ULE(z3.BitVec("havoc%d_%s_1" % (k, r["name"]), 8), 1))
    return a


# ---------------------------------------------------------------- concrete replay of a model

class ModelState:
    """Concrete initial state taken from a z3 model; records every value it hands out (for the replay file)."""

    def __init__(self, model=None, stored=None):
        self.m = model
        self.stored = stored if stored is not None else {"regs": {}, "mem": {}, "uf": {}}

    def _val(self, key, term):
        tab, k = key
        if k in self.stored[tab]:
            return self.stored[tab][k]
        if self.m is None:
            v = 0
        else:
            v = self.m.eval(term, model_completion=True).as_long()
        self.stored[tab][k] = v
        return v

    def reg(self, epoch):
        def f(name, size, temp):
            if epoch < 0:
                sym = "%s0_%s_%d" % ("t" if temp else "r", name, size)
            else:
                sym = "havoc%d_%s_%d" % (epoch, name, size) if not temp else "t0_%s_%d" % (name, size)
            return self._val(("regs", sym), z3.BitVec(sym, size * 8))
        return f

    def mem(self, epoch):
        arr = z3.Array("mem0" if epoch < 0 else "havocmem%d" % epoch, z3.BitVecSort(64), z3.BitVecSort(8))
        name = "mem0" if epoch < 0 else "havocmem%d" % epoch

        def f(addr):
            return self._val(("mem", "%s:%x" % (name, addr)), z3.Select(arr, z3.BitVecVal(addr, 64)))
        return f

    def havoc(self, k):
        return self.reg(k), self.mem(k)

    def oracle(self, name, args, out_bits):
        key = "%s(%s)->%d" % (name, ",".join("%x:%d" % a for a in args), out_bits)
        if name.startswith("unknown_"):
            fn = irsmt.uf("unknown_" + "".join(c if c.isalnum() else "_" for c in name[8:])[:40], [], out_bits)
            term = fn()
        else:
            fn = irsmt.uf(name, [b for _, b in args], out_bits)
            term = fn(*[z3.BitVecVal(v, b) for v, b in args])
        return self._val(("uf", key), term)


def normalize_trace(trace, ms):
    """Make memory snapshots comparable: a byte written with its initial value equals an untouched byte."""
    out = []
    epoch = -1
    for ev in trace:
        if ev[0] == "snapshot":
            memitems = ev[3][1]
            eff = tuple((a, v) for a, v in memitems if v != ms.mem(epoch)(a))
            out.append(("snapshot", ev[1], ev[2], eff))
            if ev[1] == "call":
                epoch += 1
        else:
            out.append(ev)
    return out


def concrete_traces(proj_a, sub_a, proj_b, sub_b, ms, choices=(), max_visits=24):
    ta = concrete.run(proj_a, sub_a, ms.reg(-1), ms.mem(-1), ms.havoc, ms.oracle, max_visits, choices)
    tb = concrete.run(proj_b, sub_b, ms.reg(-1), ms.mem(-1), ms.havoc, ms.oracle, max_visits, choices)
    return normalize_trace(ta, ms), normalize_trace(tb, ms)


def traces_differ(ta, tb):
    """First index at which the two observable traces differ (budget cut-offs compare as prefixes); None if equal."""
    n = min(len(ta), len(tb))
    for i in range(n):
        if ta[i] == ("budget",) or tb[i] == ("budget",):
            return None
        if ta[i] != tb[i]:
            return i
    if len(ta) != len(tb):
        longer = ta if len(ta) > len(tb) else tb
        shorter = tb if len(ta) > len(tb) else ta
        if shorter and shorter[-1] == ("budget",):
            return None
        return n
    return None
