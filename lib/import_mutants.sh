#!/bin/bash
# usage: import_mutants.sh <PROP> <worktree> <outdir> <letter1> <letter2> <letter3>
# copies m1..m3 into seeded/<PROP>-<letter>, re-runs the project's test suite with each patch applied in the scratch worktree
P=$1; WT=$2; OUT=$3; shift 3
i=1
for L in "$@"; do
  d=/verif/seeded/$P-$L; mkdir -p $d
  cp $OUT/m$i/* $d/ 2>/dev/null
  git -C $WT checkout -q -- . ; git -C $WT clean -fdq -e target
  if git -C $WT apply $d/patch.diff; then
    (cd $WT && CARGO_TARGET_DIR=$WT/target CARGO_NET_OFFLINE=true cargo test --workspace --no-fail-fast --offline 2>&1 | grep "^test result" > $d/.suite.txt)
    passed=$(awk '{s+=$4} END{print s+0}' $d/.suite.txt); failed=$(awk '{s+=$6} END{print s+0}' $d/.suite.txt)
    applies=true
  else
    passed=0; failed=0; applies=false
  fi
  git -C $WT checkout -q -- .
  rm -f $d/.suite.txt
  cat > $d/meta.json <<EOM
{
 "property": "$P",
 "id": "$P-$L",
 "round": 3,
 "source": "independent sub-agent given only the property text and a scratch worktree",
 "needs_to_manifest": "see description.md",
 "confirmed_by_me": {"patch_applies": $applies, "suite_passed": $passed, "suite_failed": $failed, "what_i_ran": "git apply in the scratch worktree, cargo test --workspace --no-fail-fast --offline; behaviour change confirmed by the check's native replay (see RESULTS.json) or by the agent's demo"},
 "base_commit": "$(git -C $WT rev-parse --short HEAD)"
}
EOM
  echo "$P-$L applies=$applies passed=$passed failed=$failed"
  i=$((i+1))
done
