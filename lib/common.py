"""Shared helpers for all checks: paths, environment, evidence, known findings, exit protocol."""
import json
import os
import sys
import time

VERIF = os.path.dirname(os.path.dirname(os.path.abspath(__file__)))
REPO = os.environ.get("VERIF_REPO", "/repo")
BUILD = os.path.join(VERIF, ".build")
EVIDENCE = os.path.join(VERIF, "evidence")
REPLAYS = os.path.join(VERIF, "replays")
KNOWN = os.path.join(VERIF, "known_findings.json")


def crate_dir(rel):
    """Directory of one of our cargo crates. Their Cargo.toml depends on /repo/src/cwe_checker_lib by path; when
    VERIF_REPO points elsewhere (background runs on a snapshot of /repo) a copy with rewritten paths is used."""
    src = os.path.join(VERIF, rel)
    if REPO == "/repo":
        return src
    import shutil
    dst = os.path.join(BUILD, "alt", rel.replace("/", "_"))
    if os.path.exists(dst):
        shutil.rmtree(dst)
    shutil.copytree(src, dst, ignore=shutil.ignore_patterns("target", "Cargo.lock"))
    toml = os.path.join(dst, "Cargo.toml")
    text = open(toml).read().replace('"/repo/src/cwe_checker_lib"', '"%s/src/cwe_checker_lib"' % REPO)
    with open(toml, "w") as f:
        f.write(text)
    return dst


def log(*a):
    print(*a, file=sys.stderr, flush=True)


def env_offline():
    e = dict(os.environ)
    e["CARGO_NET_OFFLINE"] = "true"
    e.setdefault("CARGO_TERM_COLOR", "never")
    return e


def seed():
    try:
        return int(os.environ.get("VERIF_SEED", "0"))
    except ValueError:
        return 0


def load_known(prop):
    """Known findings for a property: list of dicts with 'key' and 'what'. Never written at run time."""
    try:
        d = json.load(open(KNOWN))
    except (OSError, ValueError):
        return []
    return [f for f in d.get("findings", []) if f.get("property") == prop]


def write_evidence(prop, tier, level, coverage, assumptions, wall_s, violations):
    os.makedirs(EVIDENCE, exist_ok=True)
    ev = {
        "property_id": prop,
        "tier": tier,
        "seed": seed(),
        "level": level,
        "coverage": coverage,
        "assumptions": assumptions,
        "wall_s": round(wall_s, 2),
        "violations": violations,
    }
    tmp = os.path.join(EVIDENCE, prop + ".json.tmp")
    with open(tmp, "w") as f:
        json.dump(ev, f, indent=1, sort_keys=False)
        f.write("\n")
    os.replace(tmp, os.path.join(EVIDENCE, prop + ".json"))


def save_replay(prop, name, obj):
    os.makedirs(REPLAYS, exist_ok=True)
    path = os.path.join(REPLAYS, "%s_%s.json" % (prop, name))
    with open(path, "w") as f:
        json.dump(obj, f, indent=1)
        f.write("\n")
    return path


def finish(prop, violations, inconclusive):
    """violations: list of {key, what, replay}; inconclusive: list of strings.

    Prints KNOWN-FINDING lines for listed findings, VIOLATION lines for the rest; returns the exit code.
    """
    known = load_known(prop)
    new = []
    for v in violations:
        k = [f for f in known if f.get("key") == v["key"]]
        if k:
            print("KNOWN-FINDING: property=%s %s" % (prop, k[0].get("what", v["key"])), flush=True)
        else:
            new.append(v)
    for v in new:
        print("VIOLATION property=%s replay=%s" % (prop, v["replay"]), flush=True)
        log("  what: %s" % v.get("what", ""))
    if new:
        return 1
    if inconclusive:
        for i in inconclusive:
            log("INCONCLUSIVE: %s" % i)
        return 2
    return 0
