"""C20 — format-string parsing yields the arguments the format consumes (engine R: regex -> SMT).

The regex literal is extracted from utils/arguments.rs on every run, parsed into an AST and its
leftmost-first (Perl-style, as implemented by the `regex` crate) semantics is unrolled over a bounded
SYMBOLIC string; the specifier -> (datatype, size) mapping is obtained from the real `Datatype::from`
through the native driver. z3 searches for a string of the documented grammar on which the resulting
parameter list differs from a reference scanner; every model is replayed through the real
`parse_format_string_parameters`.
"""
import json
import os
import re
import time

import tv_common as T
from tv_common import z3
from common import REPO, log, write_evidence, save_replay, finish

SRC = os.path.join(REPO, "src", "cwe_checker_lib", "src", "utils", "arguments.rs")
PAD = 0


# ------------------------------------------------------------------ regex front end (subset)

class Unsupported(Exception):
    pass


def parse_regex(pat):
    """Returns a sequence (list of nodes). Nodes: ('lit', ch) ('class', frozenset, neg) ('group', idx|None, [seq...]) ('rep', node, lo, hi)."""
    pos = [0]
    ngroups = [0]

    def peek():
        return pat[pos[0]] if pos[0] < len(pat) else None

    def eat():
        ch = pat[pos[0]]
        pos[0] += 1
        return ch

    def escape():
        ch = eat()
        if ch == "d":
            return ("class", frozenset("0123456789"), False)
        if ch in ".-\\+*?()[]{}|%#":
            return ("lit", ch)
        raise Unsupported("escape \\%s" % ch)

    def cls():
        neg = False
        if peek() == "^":
            eat()
            neg = True
        items = set()
        first = True
        while True:
            ch = peek()
            if ch is None:
                raise Unsupported("unterminated class")
            if ch == "]" and not first:
                eat()
                break
            first = False
            ch = eat()
            if ch == "\\":
                n = escape()
                if n[0] == "lit":
                    lo = n[1]
                else:
                    items |= set(n[1])
                    continue
            else:
                lo = ch
            if peek() == "-" and pos[0] + 1 < len(pat) and pat[pos[0] + 1] != "]":
                eat()
                hi = eat()
                if hi == "\\":
                    hi = escape()[1]
                items |= set(chr(c) for c in range(ord(lo), ord(hi) + 1))
            else:
                items.add(lo)
        return ("class", frozenset(items), neg)

    def atom():
        ch = eat()
        if ch == "\\":
            return escape()
        if ch == "[":
            return cls()
        if ch == "(":
            idx = None
            if peek() == "?":
                eat()
                if eat() != ":":
                    raise Unsupported("group flags")
            else:
                ngroups[0] += 1
                idx = ngroups[0]
            alts = alternation()
            if eat() != ")":
                raise Unsupported("unbalanced group")
            return ("group", idx, alts)
        if ch == ".":
            return ("class", frozenset("\n"), True)
        if ch in "*+?{}|)":
            raise Unsupported("unexpected %s" % ch)
        return ("lit", ch)

    def quantified():
        a = atom()
        while peek() in ("*", "+", "?", "{"):
            ch = eat()
            if ch == "*":
                a = ("rep", a, 0, None)
            elif ch == "+":
                a = ("rep", a, 1, None)
            elif ch == "?":
                a = ("rep", a, 0, 1)
            else:
                m = re.match(r"(\d+)(,(\d*))?\}", pat[pos[0]:])
                if not m:
                    raise Unsupported("bad counted repetition")
                pos[0] += m.end()
                lo = int(m.group(1))
                hi = lo if m.group(2) is None else (int(m.group(3)) if m.group(3) else None)
                a = ("rep", a, lo, hi)
            if peek() == "?":
                raise Unsupported("lazy quantifier")
        return a

    def sequence():
        seq = []
        while peek() is not None and peek() not in "|)":
            seq.append(quantified())
        return seq

    def alternation():
        alts = [sequence()]
        while peek() == "|":
            eat()
            alts.append(sequence())
        return alts

    alts = alternation()
    if pos[0] != len(pat):
        raise Unsupported("trailing input")
    return [("group", None, alts)] if len(alts) > 1 else alts[0]


def extract_regex():
    src = open(SRC).read()
    i = src.index("pub fn parse_format_string_parameters")
    m = re.search(r'Regex::new\(r"((?:[^"\\]|\\.)*)"\)', src[i:])
    if not m:
        raise Unsupported("regex literal not found in parse_format_string_parameters")
    return m.group(1)


# ------------------------------------------------------------------ symbolic leftmost-first matcher

class Matcher:
    """All ways the pattern can match at a concrete start position of a symbolic string, in priority order."""

    def __init__(self, seq, chars):
        self.seq, self.c, self.L = seq, chars, len(chars)

    def single(self, node, p):
        if p >= self.L:
            return None
        if node[0] == "lit":
            return self.c[p] == ord(node[1])
        items, neg = node[1], node[2]
        cond = z3.Or(*[self.c[p] == ord(x) for x in sorted(items)])
        return z3.And(z3.Not(cond), self.c[p] != PAD) if neg else cond

    def m(self, seq, p):
        """list of (cond, end, caps) in priority order; caps: {group: (start, end, alt index)}"""
        if not seq:
            return [(z3.BoolVal(True), p, {})]
        node, rest = seq[0], seq[1:]
        out = []
        if node[0] in ("lit", "class"):
            c = self.single(node, p)
            if c is None:
                return []
            return [(z3.And(c, c2), e, caps) for (c2, e, caps) in self.m(rest, p + 1)]
        if node[0] == "group":
            for ai, alt in enumerate(node[2]):
                for (c1, e1, caps1) in self.m(alt, p):
                    for (c2, e2, caps2) in self.m(rest, e1):
                        caps = dict(caps1)
                        caps.update(caps2)
                        if node[1] is not None:
                            caps[node[1]] = (p, e1, ai)
                        out.append((z3.And(c1, c2), e2, caps))
            return out
        if node[0] == "rep":
            inner, lo, hi = node[1], node[2], node[3]
            if inner[0] not in ("lit", "class"):
                raise Unsupported("repetition of a non-character item")
            maxk = self.L - p if hi is None else min(hi, self.L - p)
            conds = []
            for k in range(maxk):
                conds.append(self.single(inner, p + k))
            for k in range(maxk, lo - 1, -1):  # greedy: longest first
                pre = z3.And(*conds[:k]) if k else z3.BoolVal(True)
                for (c2, e, caps) in self.m(rest, p + k):
                    out.append((z3.And(pre, c2), e, caps))
            return out
        raise Unsupported(str(node[0]))


def alt_specs(group_node):
    """For each alternative of the capture group: ('class', chars) or ('lit', string)."""
    out = []
    for alt in group_node[2]:
        if len(alt) == 1 and alt[0][0] == "class" and not alt[0][2]:
            out.append(("class", "".join(sorted(alt[0][1]))))
        elif all(n[0] == "lit" for n in alt):
            out.append(("lit", "".join(n[1] for n in alt)))
        else:
            raise Unsupported("capture alternative is neither a class nor a literal")
    return out


def find_group(seq, idx):
    for n in seq:
        if n[0] == "group":
            if n[1] == idx:
                return n
            for alt in n[2]:
                g = find_group(alt, idx)
                if g:
                    return g
        elif n[0] == "rep":
            g = find_group([n[1]], idx)
            if g:
                return g
    return None


REJECT = {"Long", "LongLong", "LongDouble"}


def parameter_list(seq, chars, n, spec_code, escapes):
    """Symbolic result of scanning the string: (slots, count, rejected, hit conditions).

    spec_code(spec string) -> int code (or None if the real Datatype::from panics); codes < 0 are 'rejected' types.
    escapes: treat '%%' as an escape that consumes both characters and yields no entry.
    """
    L = len(chars)
    mt = Matcher(seq, chars)
    g1 = find_group(seq, 1)
    specs = alt_specs(g1)
    K = L // 2 + 1
    slots = [z3.IntVal(0)] * K
    count = z3.IntVal(0)
    nxt = z3.IntVal(0)
    bad_spec = z3.BoolVal(False)
    hits = []
    for p in range(L):
        alts = mt.m(seq, p)
        active = z3.And(nxt <= p, p < n)
        esc = z3.BoolVal(False)
        if escapes and p + 1 < L:
            esc = z3.And(chars[p] == ord("%"), chars[p + 1] == ord("%"))
        hit = z3.Or(*[c for (c, e, caps) in alts]) if alts else z3.BoolVal(False)
        end = z3.IntVal(p + 1)
        code = z3.IntVal(0)
        emits = z3.BoolVal(False)
        for (c, e, caps) in reversed(alts):
            if 1 in caps:
                s0, e0, ai = caps[1]
                kind, text = specs[ai]
                if kind == "lit":
                    cd = spec_code(text)
                    cterm = z3.IntVal(cd if cd is not None else 999)
                else:
                    cterm = z3.IntVal(999)
                    for ch in text:
                        cd = spec_code(ch)
                        cterm = z3.If(chars[s0] == ord(ch), z3.IntVal(cd if cd is not None else 999), cterm)
                code = z3.If(c, cterm, code)
                emits = z3.If(c, z3.BoolVal(True), emits)
            else:
                # a match of an alternative without the capture group (e.g. `%%`): consumed, no parameter
                emits = z3.If(c, z3.BoolVal(False), emits)
            end = z3.If(c, z3.IntVal(e), end)
        fire = z3.And(active, z3.Not(esc), hit)
        emit = z3.And(fire, emits)
        for k in range(K):
            slots[k] = z3.If(z3.And(emit, count == k), code, slots[k])
        count = z3.If(emit, count + 1, count)
        nxt = z3.If(z3.And(active, esc), z3.IntVal(p + 2), z3.If(fire, end, nxt))
        hits.append((active, esc, hit))
    return slots, count, hits


# ------------------------------------------------------------------ reference (documented grammar)

REF_REGEX = r"%[+\-#0]{0,1}\d*[\.]?\d*([cCdiouxXeEfFgGaAnpsS]|hi|hd|hu|li|ld|lu|lli|lld|llu|lf|lg|le|la|lF|lG|lE|lA|Lf|Lg|Le|La|LF|LG|LE|LA)"
REF_TABLE = {}
for _s in "cC":
    REF_TABLE[_s] = ("Char", 4)  # promoted to int
for _s in ["d", "i", "u", "o", "p", "x", "X", "hi", "hd", "hu"]:
    REF_TABLE[_s] = ("Integer", 4)
for _s in "sSn":
    REF_TABLE[_s] = ("Pointer", 8)
for _s in ["lf", "lg", "le", "la", "lF", "lG", "lE", "lA", "f", "F", "e", "E", "a", "A", "g", "G"]:
    REF_TABLE[_s] = ("Double", 8)
for _s in ["li", "ld", "lu"]:
    REF_TABLE[_s] = ("Long", 8)
for _s in ["lli", "lld", "llu"]:
    REF_TABLE[_s] = ("LongLong", 8)
for _s in ["Lf", "Lg", "Le", "La", "LF", "LG", "LE", "LA"]:
    REF_TABLE[_s] = ("LongDouble", 16)


def reference_parse(s):
    """Concrete reference scanner for the documented grammar. Returns list of (datatype, size), 'rejected', or None if s is outside the grammar."""
    out = []
    i = 0
    spec = re.compile(r"%[+\-#0]?\d*\.?\d*(lli|lld|llu|hi|hd|hu|li|ld|lu|lf|lg|le|la|lF|lG|lE|lA|Lf|Lg|Le|La|LF|LG|LE|LA|[cCdiouxXeEfFgGaAnpsS])")
    while i < len(s):
        if s[i] != "%":
            i += 1
            continue
        if s.startswith("%%", i):
            i += 2
            continue
        m = spec.match(s, i)
        if not m:
            return None
        out.append(REF_TABLE[m.group(1)])
        i = m.end()
    if any(t in REJECT for t, _ in out):
        return "rejected"
    return out


CODES = {}


def code_of(pair):
    """(datatype, size) -> positive int; rejected datatypes -> negative int."""
    if pair not in CODES:
        CODES[pair] = (len(CODES) + 1) * (-1 if pair[0] in REJECT else 1)
    return CODES[pair]


def run(prop, tier):
    t0 = time.time()
    drv = T.build_driver()
    if drv is None:
        return 2
    L = int(os.environ.get("VERIF_STRLEN", "10" if tier == "quick" else "16"))  # measured: 10 -> 15 s, 13 -> 75 s, 16 -> 6 min
    inconclusive, violations = [], []
    try:
        pat = extract_regex()
        seq = parse_regex(pat)
        ref_seq = parse_regex(REF_REGEX)
        specs = alt_specs(find_group(seq, 1))
    except (Unsupported, ValueError) as e:
        write_evidence(prop, tier, "proof", {"obligations": 1, "discharged": 0, "checker_cmd": "regex front end", "trusted_base": [], "explanation": "pattern outside the encoder: %s" % e}, [], time.time() - t0, 0)
        log("INCONCLUSIVE: pattern outside the encoder: %s" % e)
        return 2
    # the real specifier -> datatype mapping, once per run
    all_specs = sorted(set(sum(([t] if k == "lit" else list(t) for k, t in specs), [])))
    real = T.run_driver(drv, "fmt", [{"spec": s} for s in all_specs])
    real_map = {}
    for s, r in zip(all_specs, real):
        real_map[s] = None if "panic" in r else code_of((r["datatype"], r["size"]))
    ref_map = {s: code_of(v) for s, v in REF_TABLE.items()}

    chars = [z3.BitVec("c%d" % i, 8) for i in range(L)]
    n = z3.Int("n")
    solver = z3.Solver()
    solver.set("timeout", int(os.environ.get("VERIF_SOLVER_TIMEOUT_MS", "600000" if tier == "quick" else "2400000")))
    solver.add(n >= 0, n <= L)
    for i in range(L):
        solver.add(z3.If(i < n, z3.And(chars[i] >= 0x20, chars[i] <= 0x7e), chars[i] == PAD))
    islots, icount, ihits = parameter_list(seq, chars, n, lambda s: real_map.get(s), escapes=False)
    rslots, rcount, rhits = parameter_list(ref_seq, chars, n, lambda s: ref_map.get(s), escapes=True)
    # the string is inside the documented grammar: every '%' the reference scanner reaches is an escape or starts a conversion
    for p, (active, esc, hit) in enumerate(rhits):
        solver.add(z3.Implies(z3.And(active, chars[p] == ord("%")), z3.Or(esc, hit)))
    K = len(islots)
    irej = z3.Or(*[z3.And(k < icount, islots[k] < 0) for k in range(K)])
    rrej = z3.Or(*[z3.And(k < rcount, rslots[k] < 0) for k in range(K)])
    differ = z3.Or(irej != rrej, z3.And(z3.Not(irej), z3.Or(icount != rcount, *[z3.And(k < icount, islots[k] != rslots[k]) for k in range(K)])))
    queries = 0
    solver_s = 0.0
    found = []
    blocked = []
    # enumerate distinct counterexample classes (block the found string's "shape": its first differing specifier position)
    for _round in range(6):
        ts = time.time()
        solver.push()
        solver.add(differ)
        for b in blocked:
            solver.add(b)
        r = solver.check()
        queries += 1
        solver_s += time.time() - ts
        if r == z3.unknown:
            solver.pop()
            inconclusive.append("solver returned unknown for string length %d" % L)
            break
        if r == z3.unsat:
            solver.pop()
            break
        m = solver.model()
        nn = m.eval(n, model_completion=True).as_long()
        s = "".join(chr(m.eval(chars[i], model_completion=True).as_long()) for i in range(nn))
        solver.pop()
        real_out = T.run_driver(drv, "fmt", [{"s": s}])[0]
        ref_out = reference_parse(s)
        got = "rejected" if real_out.get("rejected") else ("panic" if "panic" in real_out else [tuple(x) for x in real_out["ok"]])
        if ref_out is None:
            inconclusive.append("model string %r is outside the grammar (encoding suspect)" % s)
            break
        if got == ref_out or (got != "rejected" and got != "panic" and ref_out != "rejected" and [tuple(x) for x in got] == [tuple(x) for x in ref_out]):
            inconclusive.append("model string %r does not reproduce: real %r reference %r" % (s, got, ref_out))
            break
        kind = "escape" if "%%" in s else "specifier"
        # key: which construct is mis-parsed (first differing token), not the literal string
        tok = re.findall(r"%%|%[^a-zA-Z%]*[a-zA-Z]{0,3}", s)
        key = "C20 %s: %s" % (kind, re.sub(r"\d+", "N", tok[0]) if tok else s)
        found.append({"key": key, "string": s, "real": got, "reference": ref_out})
        path = save_replay(prop, "str_%d" % len(found), {"property": prop, "engine": "regex-smt", "string": s, "real_when_found": got, "reference": ref_out})
        violations.append({"key": key, "what": "format string %r: real parser gives %r, documented grammar gives %r" % (s, got, ref_out), "replay": path})
        # block this class: strings containing the same first token shape are excluded in the next round
        if "%%" in s:
            blocked.append(z3.And(*[z3.Not(z3.And(chars[i] == ord("%"), chars[i + 1] == ord("%"))) for i in range(L - 1)]))
        else:
            blocked.append(z3.Or(*[chars[i] != m.eval(chars[i], model_completion=True) for i in range(nn)]))
    uniq = {}
    for v in violations:
        uniq.setdefault(v["key"], v)
    violations = list(uniq.values())
    held = not found and not inconclusive
    coverage = {
        "obligations": 1,
        "discharged": 1 if held else 0,
        "checker_cmd": "z3: exists string s in Sigma^{<=%d} inside the documented grammar with impl(s) != reference(s)  (unsat = holds)" % L,
        "trusted_base": ["z3", "regex front end + leftmost-first unrolling in lib/prop_c20.py", "reference grammar/table in lib/prop_c20.py (REF_REGEX, REF_TABLE)", "regex crate implements leftmost-first semantics"],
        "functions_encoded": ["regex literal of parse_format_string_parameters (utils/arguments.rs), extracted at run time: %s" % pat,
                              "Datatype::from and DatatypeProperties::get_size_from_data_type (queried from the real code per specifier: %d specifiers)" % len(all_specs),
                              "rejection of long / long long / long double"],
        "bounds": "all strings of length <= %d over printable ASCII (0x20-0x7e) that lie inside the documented grammar (literal text, %%%%, conversion specifications); longer strings and non-ASCII are outside" % L,
        "queries_discharged": queries, "solver_s": round(solver_s, 1),
        "samples": found[:4] or [{"note": "no differing string exists within the bound", "regex": pat}],
        "inconclusive": inconclusive,
    }
    assumptions = ["datatype sizes of a 64-bit target (int 4, pointer 8, double 8, long double 16)", "captures_iter = repeated leftmost-first search from the end of the previous match",
                   "every model is replayed through the real parse_format_string_parameters and an independent concrete reference scanner"]
    known_keys = {f["key"] for f in __import__("common").load_known(prop)}
    write_evidence(prop, tier, "proof", coverage, assumptions, time.time() - t0, len([v for v in violations if v["key"] not in known_keys]))
    return finish(prop, violations, inconclusive)


def replay(prop, path):
    d = json.load(open(path))
    drv = T.build_driver()
    if drv is None:
        return 2
    s = d["string"]
    real_out = T.run_driver(drv, "fmt", [{"s": s}])[0]
    got = "rejected" if real_out.get("rejected") else ("panic" if "panic" in real_out else [tuple(x) for x in real_out["ok"]])
    ref = reference_parse(s)
    ref = ref if ref == "rejected" else [tuple(x) for x in ref]
    if got != ref:
        print("VIOLATION property=%s replay=%s" % (prop, path))
        log("  %r: real %r, reference %r" % (s, got, ref))
        return 1
    log("replay: real parser and reference agree on %r" % s)
    return 0
