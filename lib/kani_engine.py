"""Engine K: run Kani proof harnesses over the real cwe_checker_lib code, replay counterexamples natively.

Exit-code contract (implemented in `finish` of common.py): 0 held / only known findings, 1 VIOLATION, 2 inconclusive.
"""
import json
import os
import re
import shutil
import subprocess
import time

from common import VERIF, REPO, BUILD, env_offline, log, crate_dir

KDIR = crate_dir(os.path.join("engines", "kani"))
KTARGET = os.path.join(BUILD, "kani")
NTARGET = os.path.join(BUILD, "native")

STUBS = [
    "alloc::fmt::format -> String::new()",
    "std::backtrace::Backtrace::capture -> Backtrace::disabled()",
    "core::error::request_ref -> None",
    "<anyhow::Error as Drop>::drop -> no-op (error values are leaked, never inspected)",
]


def sync_lock():
    """The harness crate resolves dependencies with /repo's lock file (offline)."""
    src = os.path.join(REPO, "Cargo.lock")
    dst = os.path.join(KDIR, "Cargo.lock")
    try:
        if not os.path.exists(dst) or open(src, "rb").read() != open(dst, "rb").read():
            shutil.copyfile(src, dst)
    except OSError:
        pass


def base_cmd(harnesses, jobs, harness_timeout, unwind, extra_cbmc=(), playback=False, memchecks=False, features=()):
    cmd = ["cargo", "kani", "-Z", "stubbing", "-Z", "unstable-options"]
    if features:
        cmd += ["--features", ",".join(features)]
    if playback:
        cmd += ["-Z", "concrete-playback", "--concrete-playback=print"]
    if not memchecks:
        cmd += ["--no-memory-safety-checks", "--no-overflow-checks"]
    cmd += ["--output-format", "terse"]
    if jobs > 1 and not playback:
        cmd += ["-j", str(jobs)]
    cmd += ["--harness-timeout", "%ds" % harness_timeout]
    for h in harnesses:
        cmd += ["--harness", h]
    cmd += ["--exact", "--target-dir", KTARGET]
    if extra_cbmc:
        cmd += ["--cbmc-args"] + list(extra_cbmc)
    return cmd


HDR = re.compile(r"(?:Thread (\d+): )?Checking harness (\S+)\.\.\.")


def parse(out):
    """Parse Kani terse output (possibly interleaved by -j) into {harness: result}."""
    cur, res, last = {}, {}, None
    for line in out.splitlines():
        m = HDR.match(line)
        if m:
            t = m.group(1) or "0"
            cur[t] = m.group(2)
            res.setdefault(m.group(2), {"failed": [], "stubs": 0})
            last = t
            continue
        m = re.match(r"Thread (\d+):\s*(.*)$", line)
        if m:
            last = m.group(1)
            line = m.group(2)
        if last is None or cur.get(last) is None:
            continue
        r = res[cur[last]]
        if "- Stub:" in line:
            r["stubs"] += 1
        elif line.startswith("VERIFICATION:-"):
            r["status"] = line.split(":-")[1].strip()
        elif line.startswith("Verification Time"):
            r["time"] = float(line.split(":")[1].strip().rstrip("s"))
        elif "timed out" in line:
            r["why"] = "timeout"
        elif "out of memory" in line:
            r["why"] = "oom"
        elif line.startswith("Failed Checks:"):
            r["failed"].append(line[len("Failed Checks:"):].strip())
        elif "cover properties satisfied" in line:
            m2 = re.search(r"(\d+) of (\d+) cover", line)
            r["cover"] = (int(m2.group(1)), int(m2.group(2)))
        else:
            m2 = re.match(r"\s*\*\* (\d+) of (\d+) failed", line)
            if m2:
                r["nfailed"], r["checks"] = int(m2.group(1)), int(m2.group(2))
    return res


def parse_playback(out):
    """Extract [(kind, label, [bytes...])] from `--concrete-playback=print` output."""
    tests = []
    for blk in re.split(r"Concrete playback unit test for", out)[1:]:
        m = re.search(r"Check for `(\w+)`: \"(.*)\"", blk)
        if not m:
            continue
        vals = []
        body = blk.split("let concrete_vals", 1)
        if len(body) < 2:
            continue
        body = body[1].split("];", 1)[0]
        for v in re.findall(r"vec!\[([0-9, ]*)\]", body.split("vec![", 1)[1] if "vec![" in body else ""):
            vals.append([int(x) for x in v.replace(" ", "").split(",") if x != ""])
        tests.append((m.group(1), m.group(2), vals))
    return tests


def run_kani(harnesses, jobs=8, harness_timeout=600, unwind=4, extra_cbmc=(), playback=False, wall_timeout=None, memchecks=False, features=()):
    sync_lock()
    cmd = base_cmd(harnesses, jobs, harness_timeout, unwind, extra_cbmc, playback, memchecks, features)
    t0 = time.time()
    try:
        p = subprocess.run(cmd, cwd=KDIR, env=env_offline(), stdout=subprocess.PIPE, stderr=subprocess.STDOUT,
                           text=True, timeout=wall_timeout)
        out = p.stdout
        rc = p.returncode
    except subprocess.TimeoutExpired as e:
        out = (e.stdout or b"").decode("utf-8", "replace") if isinstance(e.stdout, bytes) else (e.stdout or "")
        rc = 124
        subprocess.run(["pkill", "-x", "cbmc"])
    return cmd, rc, out, time.time() - t0


def build_replay():
    sync_lock()
    e = env_offline()
    e["CARGO_TARGET_DIR"] = NTARGET
    p = subprocess.run(["cargo", "build", "--offline", "--bin", "replay"], cwd=KDIR, env=e,
                       stdout=subprocess.PIPE, stderr=subprocess.STDOUT, text=True)
    if p.returncode != 0:
        log(p.stdout[-3000:])
        return None
    return os.path.join(NTARGET, "debug", "replay")


def native_replay(binary, harness, vals):
    """Run the real library natively on the counterexample. Returns (rc, failed_labels, notes)."""
    short = harness.split("::")[-1]
    args = [binary, short] + [("".join("%02x" % b for b in v) or "-") for v in vals]
    p = subprocess.run(args, stdout=subprocess.PIPE, stderr=subprocess.STDOUT, text=True, timeout=120)
    failed = [l[len("FAILED-CHECK "):] for l in p.stdout.splitlines() if l.startswith("FAILED-CHECK ")]
    notes = [l[5:] for l in p.stdout.splitlines() if l.startswith("NOTE ")]
    return p.returncode, failed, notes


def codegen_only(harnesses, features=()):
    """Compile the selected harnesses (no verification) so that symbol maps exist."""
    sync_lock()
    cmd = ["cargo", "kani", "-Z", "stubbing", "-Z", "unstable-options"]
    if features:
        cmd += ["--features", ",".join(features)]
    cmd += ["--no-memory-safety-checks", "--no-overflow-checks", "--only-codegen"]
    for h in harnesses:
        cmd += ["--harness", h]
    cmd += ["--exact", "--target-dir", KTARGET]
    p = subprocess.run(cmd, cwd=KDIR, env=env_offline(), stdout=subprocess.PIPE, stderr=subprocess.STDOUT, text=True)
    return p.returncode, p.stdout


def loop_ids(harnesses, pretty_regex):
    """Mangled names of the functions whose pretty name matches, read from the symbol maps Kani wrote for these harnesses."""
    import glob
    rx = re.compile(pretty_regex)
    found = set()
    base = os.path.join(KTARGET, "kani", "x86_64-unknown-linux-gnu", "debug", "build", "vk")
    for h in harnesses:
        short = h.split("::")[-1]
        files = sorted(glob.glob(os.path.join(base, "*", "out", "*%s.pretty_name_map.json" % short)), key=os.path.getmtime)
        if not files:
            continue
        try:
            d = json.load(open(files[-1]))
        except (OSError, ValueError):
            continue
        for mangled, pretty in d.items():
            if isinstance(pretty, str) and rx.search(pretty) and "::" not in mangled:
                found.add(mangled)
    return sorted(found)
