#!/bin/bash
# run the given Kani-based checks one after the other (they share one target dir), logging to /tmp/kq_<id>.out
cd /verif
for id in "$@"; do
  VERIF_JOBS=${VERIF_JOBS:-8} ./check $id --tier ${TIER:-quick} > /tmp/kq_$id.out 2>&1; echo "exit $?" >> /tmp/kq_$id.out
done
