"""Driver for the properties decided by engine K (Kani harnesses)."""
import json
import os
import re
import time

import kani_engine as K
from common import VERIF, log, write_evidence, save_replay, finish, seed

CFG = {
    "C01": {
        "module": "c01",
        "unwind": 4,
        "functions": [
            "BitvectorExtended::bin_op / un_op / cast / subpiece / into_resize_unsigned / into_resize_signed (intermediate_representation/bitvector.rs)",
            "BitvectorDomain::bin_op / un_op / cast / subpiece (abstract_domain/bitvector.rs), RegisterDomain::bin_op_bytesize",
            "Expression::bytesize for BinOp (intermediate_representation/expression.rs)",
        ],
        "bounds": "operand widths 1,2,4,8 bytes fully symbolic (shift amounts incl. >= width, mixed shift-amount widths); "
                  "division/remainder equivalence only at 1 and 2 bytes (wider: only the division-by-zero clause); "
                  "16-byte operands for piece(8+8), add/sub/bitwise/compare and the 'reports unknown' clause; "
                  "domain wrapper: one operation per harness on 17 binary, 5 unary, 5 cast operations and 3 subpiece shapes, operands of equal width only "
                  "(a shift through the wrapper whose amount has another width than the value is out of reach: 56 GB / no result in 15 min; the unwrapped Bitvector shifts are covered with mixed widths); "
                  "Expression::bytesize of every binary operation at concrete operand widths (quick: the 8 operations with a non-trivial width rule); loop unwinding 4 with unwinding assertions on",
        "oracle": "P-Code reference-manual semantics written on native machine integers (src/c01.rs: ref_binop/ref_unop/ref_cast); SDIV/SREM follow the Ghidra emulator (truncating, MIN/-1 wraps)",
    },
    "C02": {
        "module": "c02",
        "unwind": 4,
        # binary gcd on operands < 2^k runs at most 2k iterations: strides are < 2^8 at 1 byte -> 18
        "unwindset": [(r"^gcd::.*binary_u(8|16|32|64|size)$|^<u(8|16|32|64|size) as gcd::Gcd>::gcd_binary$", 18)],
        "functions": [
            "Interval::{contains, add, sub, signed_mul, int_2_comp, bitwise_not, zero_extend, piece, subpiece, subpiece_higher, subpiece_lower, adjust_end_to_value_in_stride, adjust_start_to_value_in_stride, adjust_to_stride_and_remainder} (abstract_domain/interval/simple_interval.rs)",
            "BitvectorExtended::{signed_add_overflow_checked, signed_sub_overflow_checked, signed_mult_with_overflow_flag, subpiece, bin_op(Piece)} as called from there",
            "gcd::Gcd::gcd for u64 (dependency, executed symbolically, not stubbed)",
        ],
        "bounds": "layer 1 only (struct Interval); `sub` per concrete stride pair (quick: 4 pairs, thorough: all 121 pairs with strides 0..=10; start, end and both members symbolic); all well-formed 1-byte strided intervals (start, end, stride fully symbolic, stride <= 255) and all members; piece 1+1 bytes; subpiece of 2-byte intervals (strides <= 255) and 4-byte intervals (strides <= 15); zero-extension 1->2 and 1->8 bytes; 8-byte contains/negation with strides <= 16; "
                  "loop unwinding 4, binary-gcd loop 18 (>= 2*8+2), unwinding assertions on. Outside: IntervalDomain-level dispatch and widening hints (decided by the result-validation engine, see C02 evidence 'domain_layer'), 8-byte add/sub/mul",
        "oracle": "membership and well-formedness recomputed from the public fields start/end/stride on native integers; concrete operation = C01 reference semantics",
    },
    "C03": {
        "module": "c03",
        "unwind": 4,
        "unwindset": [(r"^gcd::.*binary_u(8|16|32|64|size)$|^<u(8|16|32|64|size) as gcd::Gcd>::gcd_binary$", 18)],
        "functions": [
            "BitvectorDomain::merge / merge_with (abstract_domain/bitvector.rs, AbstractDomain::merge_with default in abstract_domain/mod.rs)",
            "Interval::signed_merge (abstract_domain/interval/simple_interval.rs)",
            "IntervalDomain::merge = signed_merge_and_widen, update_widening_lower/upper_bound, round_*_to_stride_of (abstract_domain/interval.rs) [thorough tier]",
            "Taint::merge / merge_with (analysis/taint/mod.rs)",
        ],
        "bounds": "known-bitvector values at 1 and 8 bytes; all pairs of well-formed 1-byte strided intervals (and 8-byte with strides <= 16) with all members; taint values; "
                  "IntervalDomain::merge at 1 byte hint-free and with symbolic lower/upper widening hints and delays (thorough tier, 45 min cap each). "
                  "Pointer/value sets with identifiers, keyed maps under the three strategies and memory regions are NOT decided by this engine (see the result-validation part of this check)",
        "oracle": "set semantics of each domain recomputed on native integers (src/c03.rs)",
    },
    "C04": {
        "module": "c04",
        "unwind": 4,
        "functions": [
            "Interval::signed_intersect, compute_intersection_residue_class, extended_gcd, adjust_to_stride_and_remainder (abstract_domain/interval/simple_interval.rs)",
        ],
        "bounds": "1-byte strided intervals: start, end and the member are fully symbolic, the stride PAIR is concrete per call (with concrete strides the extended Euclid, gcd and lcm are constants for the solver). "
                  "quick: the pairs (8,10), (6,4), (5,3), (7,0 = singleton); thorough: all 121 pairs with strides 0..=10 (22 half-row harnesses), plus two harnesses with fully symbolic strides <= 15 / <= 3 "
                  "that are marked stretch (attempted; a time-out is recorded as undecided). Recursion/loop unwinding 16 (extended Euclid on operands <= 15 needs <= 7 steps), unwinding assertions on. "
                  "The signed/unsigned <=, >=, != refinements of IntervalDomain/DataDomain and intersections at 2..16 bytes are decided by the result-validation part of this check",
        "oracle": "membership recomputed from start/end/stride on native integers (src/c02.rs: ref_contains)",
    },
    "C19": {
        "module": "c19",
        "unwind": 10,
        "functions": [
            "RuntimeMemoryImage::read / read_string_until_null_terminator / is_global_memory_address / is_address_writeable / is_interval_readable / is_interval_writeable / get_ro_data_pointer_at_address (intermediate_representation/runtime_memory_image.rs)",
            "MemorySegment::from_bare_metal_file / new_bare_metal_ram_segment (utils/binary.rs)",
            "Bitvector::bin_op(Piece) as used by read",
        ],
        "bounds": "two segments of concrete lengths 2..8 bytes (per instantiation) with symbolic contents, symbolic 64-bit base addresses (disjoint, adjacency allowed, either order; base+len does not wrap), symbolic read/write flags, "
                  "symbolic 64-bit query address; read sizes 1, 2, 4 in little and big endian (8-byte reads only as stretch harnesses in the thorough tier: 9 GB and no result in 25 min); strings: ASCII bytes only (UTF-8 validity is not the subject); loop unwinding 10 with unwinding assertions on; "
                  "outside: more than two segments, segments longer than 8 bytes, ELF/PE parsing (goblin), non-ASCII strings",
        "oracle": "byte-array model of the property statement (src/c19.rs: seg_of + per-query expectations)",
    },
}

COMMON_ASSUMPTIONS = [
    "Kani 0.68 / CBMC 6.11 / CaDiCaL are sound; rustc MIR semantics as modelled by Kani (debug profile, overflow checks on)",
    "four Kani stubs on every harness: " + "; ".join(K.STUBS),
    "CBMC memory-safety and pointer checks are switched off (--no-memory-safety-checks --no-overflow-checks): memory safety of apint/std is not part of the claim; Rust-level panics (unwrap, arithmetic overflow in debug profile, explicit asserts) in the code under verification still count as failures",
    "allocation never fails (Kani default)",
    "native replay binary and harness share one body (src/*.rs generic over Src); a Kani counterexample is reported only if the real library reproduces it natively",
]


def harness_names(module):
    src = open(os.path.join(VERIF, "engines", "kani", "src", module + ".rs")).read()
    blk = src[src.rindex("crate::harnesses!"):]
    return [(n, q.strip().lstrip("@") or None) for q, n in re.findall(r"^\s*(@quick\s+|@stretch\s+)?(\w+)\s*\[\d+\]\s*=>", blk, re.M)]


RV_PROPS = {"C02", "C03", "C04"}


def run(prop, tier):
    cfg = CFG[prop]
    t0 = time.time()
    only = os.environ.get("VERIF_ONLY", "")
    if only == "rv" and prop in RV_PROPS:
        import rv_domain
        v, inc, cov = rv_domain.run_rv(prop, tier)
        n_cases = max(1, cov.get("abstract_cases", 0))
        cov.update({"obligations": n_cases, "discharged": n_cases if not v and not inc else max(1, n_cases - len(v)), "checker_cmd": "VERIF_ONLY=rv (result-validation part only; not a full run of the check)", "trusted_base": ["z3"]})
        write_evidence(prop, tier, "proof", cov, COMMON_ASSUMPTIONS, time.time() - t0, len(v))
        return finish(prop, v, inc)
    names = harness_names(cfg["module"])
    stretch = set()
    if tier == "quick":
        names = [n for n, q in names if q == "quick"]
        features = [cfg["module"]]
    else:
        # @stretch: attempted in the thorough tier; a time-out there is recorded as undecided (outside the claim), not as a failure of the run
        stretch = {"%s::%s" % (cfg["module"], n) for n, q in names if q == "stretch"}
        names = [n for n, q in names]
        features = [cfg["module"], "thorough"]
    full = ["%s::%s" % (cfg["module"], n) for n in names]
    if not full and prop in RV_PROPS:
        # no Kani harness in this tier (measured infeasible within the quick cap): the tier consists of the result-validation part
        import rv_domain
        v, inc, cov = rv_domain.run_rv(prop, tier)
        cov.update({"obligations": max(1, cov.get("abstract_cases", 0)), "discharged": max(1, cov.get("abstract_cases", 0)) if not v and not inc else 0,
                    "checker_cmd": "z3 membership queries over the results of the real domain operations (lib/rv_domain.py); Kani harnesses of this property run in the thorough tier only",
                    "trusted_base": ["z3", "gamma (concretisation) predicates in lib/rv_domain.py", "native driver engines/tv/driver"],
                    "functions_encoded": cfg["functions"], "bounds": cfg["bounds"]})
        write_evidence(prop, tier, "proof", cov, COMMON_ASSUMPTIONS[-1:] + ["domain layer: abstract inputs generated (boundary-biased, seeded), real operation run natively, z3 decides coverage for all concrete members"], time.time() - t0, len(v))
        return finish(prop, v, inc)
    # thorough harnesses need 3-5 GB each (62 GB machine): fewer in parallel
    jobs = int(os.environ.get("VERIF_JOBS", "12" if tier == "quick" else "8"))
    per_harness = int(os.environ.get("VERIF_HARNESS_TIMEOUT", "600" if tier == "quick" else "3600"))
    extra = list(cfg.get("extra_cbmc", []))
    if cfg.get("unwindset"):
        # per-loop bounds for the few genuinely data-dependent loops; the loop ids are read from this build's symbol maps
        K.codegen_only(full, features)
        sets = []
        for rx, bound in cfg["unwindset"]:
            ids = K.loop_ids(full, rx)
            if not ids:
                log("note: no function matches %s in the symbol maps" % rx)
            for i in ids:
                for k in range(0, 3):
                    sets.append("%s.%d:%d" % (i, k, bound))
        if sets:
            extra += ["--unwindset", ",".join(sets)]
    normal = [h for h in full if h not in stretch]
    cmd, rc, out, wall = K.run_kani(normal, jobs=jobs, harness_timeout=per_harness, unwind=cfg["unwind"], extra_cbmc=extra, features=features)
    res = K.parse(out)
    if stretch:
        # stretch harnesses are memory-hungry (10-20 GB each): two at a time, after the others
        st = [h for h in full if h in stretch]
        stretch_cap = int(os.environ.get("VERIF_STRETCH_TIMEOUT", "1200"))
        _, rc2, out2, _ = K.run_kani(st, jobs=2, harness_timeout=stretch_cap, unwind=cfg["unwind"], extra_cbmc=extra, features=features)
        res.update(K.parse(out2))
        out += "\n" + out2
        rc = rc or (rc2 if not K.parse(out2) else 0)
    os.makedirs(os.path.join(K.BUILD if hasattr(K, "BUILD") else os.path.join(VERIF, ".build"), "logs"), exist_ok=True)
    open(os.path.join(VERIF, ".build", "logs", "%s_%s.log" % (prop, tier)), "w").write(out)

    violations, inconclusive, samples = [], [], []
    undecided_stretch = []
    confirmed_labels, not_replayed, n_playbacks = set(), [], 0
    MAX_PLAYBACKS = int(os.environ.get("VERIF_MAX_PLAYBACKS", "3"))
    discharged = 0
    solver_s = 0.0
    total_checks = 0
    replay_bin = None
    if not res and rc != 0:
        inconclusive.append("cargo kani failed to run (rc=%s): %s" % (rc, out[-1500:]))
    for h in full:
        r = res.get(h)
        if r is None:
            inconclusive.append("%s: no result (not run)" % h)
            continue
        solver_s += r.get("time", 0.0)
        total_checks += r.get("checks", 0)
        entry = {"harness": h, "status": r.get("status"), "cbmc_s": r.get("time"), "checks": r.get("checks"), "cover": r.get("cover")}
        if r.get("stubs", 0) < 4:
            inconclusive.append("%s: expected 4 stubs applied, saw %d" % (h, r.get("stubs", 0)))
        if r.get("status") == "SUCCESSFUL":
            cov = r.get("cover")
            if cov is None or cov[0] != cov[1] or cov[1] == 0:
                inconclusive.append("%s: vacuity witness not reachable (cover %s)" % (h, cov))
            else:
                discharged += 1
        elif r.get("why") in ("timeout", "oom") and h in stretch:
            entry["note"] = "stretch harness: %s under its cap -- undecided, outside the claim of this run" % r["why"]
            undecided_stretch.append(h)
        elif r.get("why") in ("timeout", "oom"):
            inconclusive.append("%s: %s under the per-harness cap of %ds" % (h, r["why"], per_harness))
        else:
            labels = r.get("failed", [])
            if any("unwinding assertion" in l for l in labels):
                inconclusive.append("%s: unwinding bound too small (%s)" % (h, labels))
            real = [l for l in labels if "unwinding assertion" not in l]
            if real and all(l in confirmed_labels for l in real):
                entry["note"] = "same failing check already confirmed by native replay on another harness"
            elif real and n_playbacks >= MAX_PLAYBACKS:
                entry["note"] = "failing; not replayed (playback budget of %d harnesses per run used up)" % MAX_PLAYBACKS
                not_replayed.append(h)
            elif real:
                n_playbacks += 1
                # second pass: get concrete values, replay natively
                _, _, out2, _ = K.run_kani([h], jobs=1, harness_timeout=max(per_harness, 1800), unwind=cfg["unwind"], extra_cbmc=extra, playback=True, features=features)
                tests = [t for t in K.parse_playback(out2) if t[0] != "cover"]
                if replay_bin is None:
                    replay_bin = K.build_replay()
                confirmed = False
                for kind, label, vals in tests:
                    if replay_bin is None:
                        break
                    rrc, failed, notes = K.native_replay(replay_bin, h, vals)
                    if rrc == 1 and failed:
                        confirmed = True
                        confirmed_labels.add(label)
                        confirmed_labels.update(failed)
                        for fl in sorted(set(failed)):
                            path = save_replay(prop, "%s_%s" % (h.split("::")[-1], re.sub(r"\W+", "_", fl)[:60]),
                                               {"property": prop, "engine": "kani", "harness": h, "values": vals, "failed_check": fl, "notes": notes, "kani_label": label})
                            violations.append({"key": fl, "what": "%s on %s" % (fl, "; ".join(notes[-2:])), "replay": path})
                        entry["counterexample"] = {"values": vals, "notes": notes, "failed": failed}
                if not confirmed:
                    inconclusive.append("%s: Kani reports %s but the native replay does not reproduce it (encoding suspect)" % (h, real))
            elif not labels:
                inconclusive.append("%s: verification failed without a failed check (%s)" % (h, r))
        samples.append(entry)

    if not_replayed and not violations:
        inconclusive.append("failing harnesses were not replayed: %s" % not_replayed)
    # de-duplicate violations by key (same failing check at several widths is one finding)
    uniq = {}
    for v in violations:
        uniq.setdefault(v["key"], v)
    violations = list(uniq.values())

    coverage = {
        "obligations": len(full),
        "discharged": discharged,
        "checker_cmd": " ".join(cmd[:14]) + " ... (%d harnesses) (per-harness #[kani::unwind(n)]) --cbmc-args %s" % (len(full), " ".join(extra)[:300]),
        "trusted_base": ["Kani 0.68.0", "CBMC 6.11.0", "CaDiCaL (CBMC default SAT back end)", "reference oracle in engines/kani/src/%s.rs" % cfg["module"]] + K.STUBS,
        "functions_encoded": cfg["functions"],
        "bounds": cfg["bounds"],
        "oracle": cfg["oracle"],
        "queries_discharged": total_checks,
        "solver_s": round(solver_s, 1),
        "inconclusive": inconclusive,
        "undecided_stretch_harnesses": undecided_stretch,
        "samples": samples,
        "explanation": "each obligation is one #[kani::proof] harness over kani::any() inputs; discharged = VERIFICATION SUCCESSFUL with unwinding assertions on and every kani::cover witness satisfied",
    }
    assumptions = list(COMMON_ASSUMPTIONS)
    if prop in RV_PROPS and only != "kani":
        import rv_domain
        v2, inc2, cov2 = rv_domain.run_rv(prop, tier)
        violations += v2
        inconclusive += inc2
        coverage["domain_layer_result_validation"] = cov2
        coverage["queries_discharged"] += cov2.get("queries_discharged", 0)
        coverage["solver_s"] = round(coverage["solver_s"] + cov2.get("solver_s", 0.0), 1)
        assumptions.append("domain layer (IntervalDomain / DataDomain / DomainMap / MemRegion operations): abstract inputs are generated (boundary-biased, seeded), the real operation runs natively, z3 decides coverage for all concrete members; pointer identifiers stand for arbitrary 64-bit base addresses; an absent map key means 'no value' under the union strategy and 'unknown' under the other two; an absent memory cell means 'unknown'")
    known_keys = {f["key"] for f in __import__("common").load_known(prop)}
    n_new = len([v for v in violations if v["key"] not in known_keys])
    write_evidence(prop, tier, "proof", coverage, assumptions, time.time() - t0, n_new)
    return finish(prop, violations, inconclusive)


def replay(prop, path):
    d = json.load(open(path))
    if d.get("engine") == "rv":
        import rv_domain
        return rv_domain.replay(prop, path)
    b = K.build_replay()
    if b is None:
        log("cannot build replay binary")
        return 2
    rrc, failed, notes = K.native_replay(b, d["harness"], d["values"])
    for n in notes:
        log("  " + n)
    if rrc == 1 and failed:
        print("VIOLATION property=%s replay=%s" % (prop, path))
        for f in failed:
            log("  failed: " + f)
        return 1
    if rrc == 0:
        log("replay: all checks hold on this input with the current tree")
        return 0
    return 2
