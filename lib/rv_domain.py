"""Result validation of abstract-domain operations (domain layer of C02 / C03 / C04).

The REAL operation runs natively on concrete abstract values (generated here, boundary-biased);
z3 then decides, for ALL concrete members of the inputs, whether the result covers them. So the abstract
inputs are enumerated/sampled (like programs in translation validation) and the members are solver variables —
which is what makes 2/4/8-byte widths checkable at all.
"""
import json
import os
import random
import time

import tv_common as T
from tv_common import z3, irsmt
from common import log, save_replay, seed

ENC = irsmt.Encoder(None)


def M(bits):
    return (1 << bits) - 1


def sx(v, bits):
    v &= M(bits)
    return v - (1 << bits) if v >> (bits - 1) else v


# ------------------------------------------------------------------ generators of abstract values

def gen_interval(rng, size, hints=True):
    bits = size * 8
    lo, hi = -(1 << (bits - 1)), (1 << (bits - 1)) - 1
    if size <= 8 and rng.random() < 0.15:
        # small grid around zero (both signs, small strides): sign/stride interplay
        iv = grid_interval(rng, size)
        if hints and rng.random() < 0.3:
            s0, e0 = int(iv["start"], 16), int(iv["end"], 16)
            s0 = s0 - (1 << bits) if s0 >> (bits - 1) else s0
            e0 = e0 - (1 << bits) if e0 >> (bits - 1) else e0
            iv["lower"] = "%x" % ((s0 - rng.randrange(1, 9)) & M(bits))
            iv["upper"] = "%x" % ((e0 + rng.randrange(1, 9)) & M(bits))
            iv["delay"] = rng.choice([0, 1, 5])
        return iv
    anchors = [lo, lo + 1, -2, -1, 0, 1, 2, hi - 1, hi, -128 if size > 1 else -8, 127 if size > 1 else 8, rng.randrange(lo, hi + 1), rng.randrange(-300, 300) if size > 1 else rng.randrange(-20, 20)]
    start = max(lo, min(hi, rng.choice(anchors)))
    kind = rng.random()
    if kind < 0.2:
        stride, end = 0, start
    else:
        stride = rng.choice([1, 1, 1, 2, 3, 4, 5, 7, 8, 16, rng.randrange(1, 64), rng.randrange(1, 1 << min(bits - 1, 20))])
        room = (hi - start) // stride
        if room <= 0:
            stride, end = 0, start
        else:
            k = min(room, rng.choice([1, 2, 3, room, max(1, room - 1), rng.randrange(1, room + 1), rng.randrange(1, min(room, 50) + 1)]))
            end = start + k * stride
    iv = {"size": size, "start": "%x" % (start & M(bits)), "end": "%x" % (end & M(bits)), "stride": stride, "lower": None, "upper": None, "delay": 0}
    if hints:
        if rng.random() < 0.35 and start > lo:
            iv["lower"] = "%x" % (rng.choice([lo, start - 1, max(lo, start - rng.randrange(1, 100))]) & M(bits))
        if rng.random() < 0.35 and end < hi:
            iv["upper"] = "%x" % (rng.choice([hi, end + 1, min(hi, end + rng.randrange(1, 100))]) & M(bits))
        iv["delay"] = rng.choice([0, 0, 1, 5, 100, (1 << 64) - 1])
    return iv


def grid_interval(rng, size):
    bits = size * 8
    start = rng.randrange(-6, 7)
    stride = rng.randrange(1, 13)
    end = start + stride * rng.choice([1, 2, 3, 5])
    return {"size": size, "start": "%x" % (start & M(bits)), "end": "%x" % (end & M(bits)), "stride": stride, "lower": None, "upper": None, "delay": 0}


def touching(rng, a):
    """An interval that starts where `a` ends (same width), with its own stride."""
    bits = a["size"] * 8
    hi = (1 << (bits - 1)) - 1
    start = int(a["end"], 16)
    start = start - (1 << bits) if start >> (bits - 1) else start
    stride = rng.choice([1, 1, 2, 3, 8, a["stride"] or 1])
    room = (hi - start) // stride
    if room <= 0:
        stride, end = 0, start
    else:
        end = start + stride * rng.choice([1, 2, min(room, 7), rng.randrange(1, min(room, 1000) + 1)])
        end = min(end, start + room * stride)
    return {"size": a["size"], "start": "%x" % (start & M(bits)), "end": "%x" % (end & M(bits)), "stride": stride, "lower": None, "upper": None, "delay": 0}


def widening_pair(rng, size):
    """Two intervals as they meet at a loop head: b extends a by a few strides, small delay, hints close to the bounds
    (not necessarily on the stride), so that the merge actually widens."""
    bits = size * 8
    lo, hi = -(1 << (bits - 1)), (1 << (bits - 1)) - 1
    stride = rng.choice([1, 1, 2, 3, 4, 5, 8])
    start = rng.choice([0, 0, 1, -4, -100, 10, lo + 64])
    n = rng.choice([0, 1, 2, 5])
    a_end = start + n * stride
    shape = rng.choice(["next_value", "shifted_up", "shifted_down", "extended", "previous_value"])
    k = rng.choice([1, 1, 2, 3])
    if shape == "next_value":
        b_start = b_end = a_end + k * stride
    elif shape == "previous_value":
        b_start = b_end = start - k * stride
    elif shape == "shifted_up":
        b_start, b_end = start + k * stride, a_end + k * stride
    elif shape == "shifted_down":
        b_start, b_end = start - k * stride, a_end - k * stride
    else:
        b_start, b_end = start - rng.choice([0, 1]) * stride, a_end + k * stride

    def mk(s, e):
        st = 0 if s == e else stride
        return {"size": size, "start": "%x" % (s & M(bits)), "end": "%x" % (e & M(bits)), "stride": st, "lower": None, "upper": None, "delay": rng.choice([0, 0, 1, 2, 10])}
    a, b = mk(start, a_end), mk(b_start, b_end)
    for iv, s, e in ((a, start, a_end), (b, b_start, b_end)):
        if rng.random() < 0.6:
            iv["upper"] = "%x" % (min(hi, e + rng.choice([1, 2, 3, 6, 10, 100])) & M(bits))
        if rng.random() < 0.5:
            iv["lower"] = "%x" % (max(lo, s - rng.choice([1, 2, 3, 6, 10, 100])) & M(bits))
    if rng.random() < 0.5:
        a, b = b, a
    return a, b


def gen_data(rng, size, ids=("id_a", "id_b", "id_c")):
    d = {"size": size, "abs": None, "rel": {}, "top": rng.random() < 0.15}
    if rng.random() < 0.6:
        d["abs"] = gen_interval(rng, size)
    if size == 8:
        for i in ids:
            if rng.random() < 0.3:
                d["rel"][i] = gen_interval(rng, size)
                if rng.random() < 0.15:
                    # pointer with an unknown offset into the object
                    bits = size * 8
                    d["rel"][i] = {"size": size, "start": "%x" % (1 << (bits - 1)), "end": "%x" % ((1 << (bits - 1)) - 1), "stride": 1, "lower": None, "upper": None, "delay": 0}
    return d


def gen_bvdom(rng, size):
    if rng.random() < 0.3:
        return {"size": size, "val": None}
    return {"size": size, "val": "%x" % rng.choice([0, 1, 2, 0xff, rng.randrange(1 << (8 * size))])}


# ------------------------------------------------------------------ concretisation (gamma) as z3 predicates

def iv_parts(iv):
    bits = iv["size"] * 8
    return bits, int(iv["start"], 16), int(iv["end"], 16), iv["stride"]


def member(v, iv):
    """v in gamma(interval) for a z3 bit-vector v."""
    bits, s, e, stride = iv_parts(iv)
    if v.size() != bits:
        return z3.BoolVal(False)
    sv, ev = z3.BitVecVal(s, bits), z3.BitVecVal(e, bits)
    inside = z3.And(sv <= v, v <= ev)
    if stride == 0:
        return z3.And(inside, v == sv)
    if stride >= (1 << bits):
        return z3.And(inside, v == sv)
    return z3.And(inside, z3.URem(v - sv, z3.BitVecVal(stride, bits)) == 0)


def member_c(v, iv):
    """Concrete membership (Python ints) — used to replay solver models."""
    bits, s, e, stride = iv_parts(iv)
    v, s, e = sx(v, bits), sx(s, bits), sx(e, bits)
    if not (s <= v <= e):
        return False
    return v == s if stride == 0 else (v - s) % stride == 0


def wf_interval(iv):
    bits, s, e, stride = iv_parts(iv)
    if iv.get("end_size", iv["size"]) != iv["size"]:
        return "start and end have different widths"
    s, e = sx(s, bits), sx(e, bits)
    if s > e:
        return "start > end"
    if (stride == 0) != (s == e):
        return "stride 0 iff singleton violated (start=%d end=%d stride=%d)" % (s, e, stride)
    if stride and (e - s) % stride:
        return "stride %d does not divide end - start = %d" % (stride, e - s)
    for h in ("lower", "upper"):
        if iv.get(h) is not None and iv.get(h + "_size", iv["size"]) != iv["size"]:
            return "%s widening hint has a different width" % h
    return None


def data_member(v, d, bases):
    """v in gamma(DataDomain): top, absolute part, or base(id) + offset for some tracked id."""
    alts = []
    if d["top"]:
        return z3.BoolVal(True)
    if v.size() != d["size"] * 8:
        return z3.BoolVal(False)
    if d["abs"] is not None:
        alts.append(member(v, d["abs"]))
    for i, off in d["rel"].items():
        alts.append(member(v - bases[i], off))
    return z3.Or(*alts) if alts else z3.BoolVal(False)


def data_member_c(v, d, bases):
    if d["top"]:
        return True
    if d["abs"] is not None and member_c(v, d["abs"]):
        return True
    return any(member_c((v - bases[i]) & M(64), off) for i, off in d["rel"].items())


def bvdom_member(v, d):
    if d["val"] is None:
        return z3.BoolVal(v.size() == d["size"] * 8)
    return v == z3.BitVecVal(int(d["val"], 16), d["size"] * 8)


# ------------------------------------------------------------------ expected result sizes (P-Code rules)

def binop_size(op, a, b):
    return irsmt.expr_size({"k": "binop", "op": op, "l": {"k": "const", "size": a, "val": "0"}, "r": {"k": "const", "size": b, "val": "0"}})


INT_BINOPS = ["IntAdd", "IntSub", "IntMult", "IntLeft", "IntRight", "IntSRight", "IntAnd", "IntOr", "IntXOr", "IntDiv", "IntRem", "IntSDiv", "IntSRem",
              "IntEqual", "IntNotEqual", "IntLess", "IntSLess", "IntLessEqual", "IntSLessEqual", "IntCarry", "IntSCarry", "IntSBorrow", "Piece", "FloatAdd", "FloatLess"]
UNOPS = ["Int2Comp", "IntNegate", "FloatNegate", "FloatNaN"]
CASTS = ["IntZExt", "IntSExt", "PopCount", "LzCount", "Int2Float", "Trunc"]


class RV:
    def __init__(self, prop, drv, rng, budget_s):
        self.prop, self.drv, self.rng = prop, drv, rng
        self.t_end = time.time() + budget_s
        self.solver = z3.Solver()
        self.solver.set("timeout", 1500)
        self.queries = 0
        self.solver_s = 0.0
        self.cases = 0
        self.by_op = {}
        self.violations, self.inconclusive, self.samples = [], [], []
        self.undecided = 0

    def sat(self, *cs):
        t0 = time.time()
        self.solver.push()
        for c in cs:
            self.solver.add(c)
        r = self.solver.check()
        m = self.solver.model() if r == z3.sat else None
        self.solver.pop()
        self.queries += 1
        self.solver_s += time.time() - t0
        if r == z3.unknown:
            self.undecided += 1
            return None, None
        return r == z3.sat, m

    def report(self, key, what, case, out, model_vals):
        path = save_replay(self.prop, "rv_%s_%d" % ("".join(c if c.isalnum() else "_" for c in key)[:50], self.cases),
                           {"property": self.prop, "engine": "rv", "case": case, "result_when_found": out, "members": model_vals, "what": what})
        self.violations.append({"key": key, "what": what + " | case: " + json.dumps(case)[:400] + " | members: " + json.dumps(model_vals), "replay": path})

    def count(self, op):
        self.by_op[op] = self.by_op.get(op, 0) + 1
        self.cases += 1

    # ---------------------------------------------------------- C02: transfer functions
    def cases_c02(self, n):
        rng = self.rng
        cases = []
        for _ in range(n):
            size = rng.choice([1, 1, 2, 4, 8, 8])
            r = rng.random()
            if r < 0.6:
                op = rng.choice(INT_BINOPS)
                a = gen_interval(rng, size)
                if op in ("IntLeft", "IntRight", "IntSRight"):
                    b = gen_interval(rng, rng.choice([1, size]))
                    if rng.random() < 0.7:
                        b["start"] = b["end"] = "%x" % (rng.choice([0, 1, 3, 7, 8 * size - 1, 8 * size, 200]) & M(b["size"] * 8))
                        b["stride"] = 0
                        b["lower"] = b["upper"] = None
                elif op == "Piece":
                    b = gen_interval(rng, rng.choice([1, 2, 4]) if size <= 4 else 8)
                else:
                    b = gen_interval(rng, size)
                if rng.random() < 0.25:
                    b = dict(a) if b["size"] == a["size"] else b
                cases.append({"op": "iv_bin_op", "binop": op, "a": a, "b": b})
            elif r < 0.72:
                cases.append({"op": "iv_un_op", "unop": rng.choice(UNOPS), "a": gen_interval(rng, size)})
            elif r < 0.86:
                c = rng.choice(CASTS)
                out = rng.choice([s for s in (1, 2, 4, 8) if s >= size]) if c in ("IntZExt", "IntSExt") else rng.choice([1, 4, 8])
                cases.append({"op": "iv_cast", "cast": c, "out": out, "a": gen_interval(rng, size)})
            else:
                size = rng.choice([2, 4, 8])
                low = rng.randrange(0, size)
                out = rng.choice([s for s in (1, 2, 4, 8) if low + s <= size])
                cases.append({"op": "iv_subpiece", "low": low, "out": out, "a": gen_interval(rng, size)})
        return cases

    def check_c02(self, case, out):
        r = out.get("r")
        op = case["op"]
        a = case["a"]
        x = z3.BitVec("x", a["size"] * 8)
        pre = [member(x, a)]
        vals = {"x": x}
        if op == "iv_bin_op":
            b = case["b"]
            y = z3.BitVec("y", b["size"] * 8)
            pre.append(member(y, b))
            vals["y"] = y
            conc = ENC.binop(case["binop"], x, y)
            want_size = binop_size(case["binop"], a["size"], b["size"])
            name = case["binop"]
        elif op == "iv_un_op":
            if case["unop"] == "BoolNegate" and a["size"] != 1:
                return
            conc = ENC.unop(case["unop"], x)
            want_size = 1 if case["unop"] == "FloatNaN" else a["size"]
            name = case["unop"]
        elif op == "iv_cast":
            conc = ENC.cast(case["cast"], case["out"], x)
            want_size = case["out"]
            name = case["cast"]
        else:
            conc = z3.Extract((case["low"] + case["out"]) * 8 - 1, case["low"] * 8, x)
            want_size = case["out"]
            name = "Subpiece"
        self.count(name)
        if r["size"] != want_size:
            self.report("C02 domain %s: result has the wrong width" % name, "result width %d, expected %d" % (r["size"], want_size), case, out, {})
            return
        w = wf_interval(r)
        if w:
            self.report("C02 domain %s: result interval is not well-formed" % name, w, case, out, {})
            return
        s, m = self.sat(*(pre + [z3.Not(member(conc, r))]))
        if s:
            mv = {k: m.eval(v, model_completion=True).as_long() for k, v in vals.items()}
            mv["result"] = m.eval(conc, model_completion=True).as_long()
            # replay concretely: members really are members, result really is outside
            ok = member_c(mv["x"], a) and (("y" not in mv) or member_c(mv["y"], case["b"])) and not member_c(mv["result"], r)
            if ok:
                self.report("C02 domain %s: concrete result is not a member of the computed interval" % name, "%s" % name, case, out, mv)
            else:
                self.inconclusive.append("model does not replay concretely for %s" % json.dumps(case)[:200])

    # ---------------------------------------------------------- C03: merges
    def cases_c03(self, n):
        rng = self.rng
        cases = []
        for _ in range(n):
            r = rng.random()
            size = rng.choice([1, 2, 4, 8, 8, 16])
            if r < 0.4:
                a = gen_interval(rng, size)
                b = gen_interval(rng, size) if rng.random() < 0.8 else dict(a)
                if rng.random() < 0.45:
                    a, b = widening_pair(rng, size)
                cases.append({"op": "iv_merge", "a": a, "b": b})
            elif r < 0.7:
                cases.append({"op": "dd_merge", "a": gen_data(rng, size), "b": gen_data(rng, size)})
            elif r < 0.88:
                keys = ["k1", "k2", "k3", "k4"]
                mk = lambda: {k: gen_bvdom(rng, 8) for k in keys if rng.random() < 0.6}  # noqa: E731
                cases.append({"op": "map_merge", "strategy": rng.choice(["union", "intersect", "merge_top"]), "a": mk(), "b": mk()})
            else:
                def region():
                    cells, used = [], set()
                    for _ in range(rng.randrange(0, 5)):
                        s = rng.choice([1, 2, 4, 8])
                        off = rng.randrange(-16, 16)
                        if any(o in used for o in range(off, off + s)):
                            continue
                        used.update(range(off, off + s))
                        cells.append({"offset": off, "value": gen_bvdom(rng, s)})
                    return cells
                a = region()
                b = region() if rng.random() < 0.7 else [dict(c) for c in a if rng.random() < 0.8]
                cases.append({"op": "region_merge", "a": a, "b": b})
        return cases

    def check_c03(self, case, out):
        op = case["op"]
        self.count(op)
        r = out["r"]
        if not out.get("merge_with_equal", True) and op in ("map_merge", "region_merge"):
            self.report("C03 %s: merge_with differs from merge" % op, "merge_with and merge disagree", case, out, {})
        if op == "iv_merge":
            a, b = case["a"], case["b"]
            w = wf_interval(r)
            if w:
                self.report("C03 interval merge: result is not well-formed", w, case, out, {})
                return
            v = z3.BitVec("v", a["size"] * 8)
            s, m = self.sat(z3.Or(member(v, a), member(v, b)), z3.Not(member(v, r)))
            if s:
                vv = m.eval(v, model_completion=True).as_long()
                if (member_c(vv, a) or member_c(vv, b)) and not member_c(vv, r):
                    self.report("C03 interval merge: a member of an input is not a member of the merge", "value lost", case, out, {"v": vv})
            same = lambda p, q: (p["start"], p["end"], p["stride"]) == (q["start"], q["end"], q["stride"])  # noqa: E731
            if not same(out["again_a"], r) or not same(out["again_b"], r):
                self.report("C03 interval merge: merging the result with an absorbed input enlarged it", "not stable", case, out, {})
            if not same(out["self"], a):
                self.report("C03 interval merge: merging a value with itself changed its represented set", "not idempotent", case, out, {})
            if not same(out["mw"], r):
                self.report("C03 interval merge: merge_with represents a different set than merge", "merge_with differs", case, out, {})
        elif op == "dd_merge":
            a, b = case["a"], case["b"]
            bases = {i: z3.BitVec("base_" + i, 64) for i in ("id_a", "id_b", "id_c")}
            v = z3.BitVec("v", a["size"] * 8)
            for part in [r["abs"]] + list(r["rel"].values()):
                if part is not None and wf_interval(part):
                    self.report("C03 data merge: a part of the result is not a well-formed interval", wf_interval(part), case, out, {})
                    return
            s, m = self.sat(z3.Or(data_member(v, a, bases), data_member(v, b, bases)), z3.Not(data_member(v, r, bases)))
            if s:
                vv = m.eval(v, model_completion=True).as_long()
                bb = {i: m.eval(t, model_completion=True).as_long() for i, t in bases.items()}
                if (data_member_c(vv, a, bb) or data_member_c(vv, b, bb)) and not data_member_c(vv, r, bb):
                    self.report("C03 data merge: a member of an input is not a member of the merge", "value lost", case, out, {"v": vv, "bases": bb})
            # stability as value sets: merging again must not represent more (checked with the solver)
            for tag in ("again_a", "again_b"):
                s, m = self.sat(data_member(v, out[tag], bases), z3.Not(data_member(v, r, bases)))
                if s:
                    self.report("C03 data merge: merging the result with an absorbed input enlarged it", tag, case, out, {"v": m.eval(v, model_completion=True).as_long()})
            s, m = self.sat(z3.Xor(data_member(v, out["self"], bases), data_member(v, a, bases)))
            if s:
                self.report("C03 data merge: merging a value with itself changed its represented set", "not idempotent", case, out, {"v": m.eval(v, model_completion=True).as_long()})
            s, m = self.sat(z3.Xor(data_member(v, out["mw"], bases), data_member(v, r, bases)))
            if s:
                self.report("C03 data merge: merge_with represents a different set than merge", "merge_with differs", case, out, {"v": m.eval(v, model_completion=True).as_long()})
        elif op == "map_merge":
            a, b, strat = case["a"], case["b"], case["strategy"]
            v = z3.BitVec("v", 64)
            absent = z3.BoolVal(False) if strat == "union" else z3.BoolVal(True)
            g = lambda mp, k: bvdom_member(v, mp[k]) if k in mp else absent  # noqa: E731
            for k in sorted(set(a) | set(b) | set(r)):
                s, m = self.sat(z3.Or(g(a, k), g(b, k)), z3.Not(g(r, k)))
                if s:
                    self.report("C03 map merge (%s): a value of an input is not represented by the merge" % strat, "key %s" % k, case, out, {"v": m.eval(v, model_completion=True).as_long(), "key": k})
                for tag in ("again_a", "again_b"):
                    s, m = self.sat(g(out[tag], k), z3.Not(g(r, k)))
                    if s:
                        self.report("C03 map merge (%s): merging the result with an absorbed input enlarged it" % strat, "key %s" % k, case, out, {"key": k})
                s, m = self.sat(z3.Xor(g(out["self"], k), g(a, k)))
                if s:
                    self.report("C03 map merge (%s): merging a map with itself changed it" % strat, "key %s" % k, case, out, {"key": k})
        else:
            mem = z3.Array("mem", z3.BitVecSort(64), z3.BitVecSort(8))

            def rd(off, n):
                bs = [z3.Select(mem, z3.BitVecVal(off + i, 64)) for i in range(n)]
                return z3.Concat(*bs[::-1]) if n > 1 else bs[0]

            def g(cells):
                cs = [bvdom_member(rd(c["offset"], c["value"]["size"]), c["value"]) for c in cells]
                return z3.And(*cs) if cs else z3.BoolVal(True)
            a, b = out["a_norm"], out["b_norm"]
            s, m = self.sat(z3.Or(g(a), g(b)), z3.Not(g(r)))
            if s:
                self.report("C03 memory region merge: a memory represented by an input is not represented by the merge", "cell kept although the other side does not guarantee it", case, out, {})
            for tag in ("again_a", "again_b"):
                s, m = self.sat(g(out[tag]) != g(r))
                if s:
                    self.report("C03 memory region merge: merging the result with an absorbed input changed it", tag, case, out, {})
            # no overlapping cells, no Top cells
            end = None
            for c in r:
                if c["value"]["val"] is None:
                    self.report("C03 memory region merge: a Top cell is stored", "top cell", case, out, {})
                if end is not None and c["offset"] < end:
                    self.report("C03 memory region merge: overlapping cells", "overlap", case, out, {})
                end = c["offset"] + c["value"]["size"]

    # ---------------------------------------------------------- C04: refinements
    def cases_c04(self, n):
        rng = self.rng
        cases = []
        for _ in range(n):
            size = rng.choice([1, 1, 2, 4, 8, 8])
            bits = size * 8
            r = rng.random()
            kind = rng.choice(["sle", "sge", "ule", "uge", "ne"])
            if r < 0.55:
                a = gen_interval(rng, size)
                s, e = int(a["start"], 16), int(a["end"], 16)
                bound = rng.choice([s, e, (s - 1) & M(bits), (e + 1) & M(bits), (s + 1) & M(bits), (e - 1) & M(bits), 0, M(bits), 1 << (bits - 1), M(bits - 1), rng.randrange(1 << bits)])
                cases.append({"op": "iv_refine", "kind": kind, "a": a, "bound": "%x" % bound})
            elif r < 0.7:
                if rng.random() < 0.15:
                    size = 16  # the implementation switches to a stride-free computation above 8 bytes
                    bits = 128
                a, b = gen_interval(rng, size), gen_interval(rng, size)
                if size <= 8 and rng.random() < 0.4:
                    # small grid around zero: bases of both signs, all small stride pairs (residue-class arithmetic)
                    a, b = grid_interval(rng, size), grid_interval(rng, size)
                elif rng.random() < 0.3:
                    # touching intervals: the intersection is the single shared bound
                    b = touching(rng, a)
                    if rng.random() < 0.5:
                        a, b = b, a
                cases.append({"op": "iv_intersect", "a": a, "b": b})
            elif r < 0.9:
                a = gen_data(rng, size)
                bound = rng.choice([0, 1, M(bits), 1 << (bits - 1), M(bits - 1), rng.randrange(1 << bits)] + ([int(a["abs"]["start"], 16), int(a["abs"]["end"], 16)] if a["abs"] else []))
                cases.append({"op": "dd_refine", "kind": kind, "a": a, "bound": "%x" % bound})
            else:
                cases.append({"op": "dd_intersect", "a": gen_data(rng, size), "b": gen_data(rng, size)})
        return cases

    def check_c04(self, case, out):
        op = case["op"]
        r = out.get("r")
        a = case["a"]
        bits = a["size"] * 8
        v = z3.BitVec("v", bits)
        is_dd = op.startswith("dd_")
        if op.endswith("refine"):
            c = z3.BitVecVal(int(case["bound"], 16), bits)
            kind = case["kind"]
            cond = {"sle": v <= c, "sge": v >= c, "ule": z3.ULE(v, c), "uge": z3.UGE(v, c), "ne": v != c}[kind]
            name = "%s %s" % ("data" if is_dd else "interval", kind)
        else:
            cond = None
            name = "%s intersect" % ("data" if is_dd else "interval")
        self.count(name)

        def one(tag, ia, ib, ir, top_ok):
            """Members of interval ia (and ib, or satisfying cond) must be in ir; ir None means 'reported empty'."""
            pre = [member(v, ia)] + ([member(v, ib)] if ib is not None else []) + ([cond] if (cond is not None and tag in ("absolute part", "interval")) else [])
            if top_ok:
                return
            if ir is None:
                s, m = self.sat(*pre)
                if s:
                    vv = m.eval(v, model_completion=True).as_long()
                    if member_c(vv, ia) and (ib is None or member_c(vv, ib)):
                        self.report("C04 %s: %s reported unsatisfiable/dropped although a represented value satisfies the condition" % (name, tag), "feasible value exists", case, out, {"v": vv})
                return
            w = wf_interval(ir)
            if w:
                self.report("C04 %s: result is not a well-formed interval" % name, w, case, out, {})
                return
            s, m = self.sat(*(pre + [z3.Not(member(v, ir))]))
            if s:
                vv = m.eval(v, model_completion=True).as_long()
                if member_c(vv, ia) and (ib is None or member_c(vv, ib)) and not member_c(vv, ir):
                    self.report("C04 %s: a represented value satisfying the condition was removed (%s)" % (name, tag), "feasible value removed", case, out, {"v": vv})
                else:
                    self.inconclusive.append("model does not replay concretely for %s" % json.dumps(case)[:200])

        if not is_dd:
            one("interval", a, case.get("b"), r, False)
            return
        # DataDomain: judged kind-wise — absolute parts against absolute parts, offsets of the same identifier against each other;
        # a result with the Top flag represents everything
        b = case.get("b")
        rtop = bool(r and r["top"])
        if a["top"] and (b is None or b["top"]):
            if r is None or not r["top"]:
                self.report("C04 %s: unknown (Top) values were removed" % name, "top flag lost", case, out, {})
            return
        if b is None:
            if a["abs"] is not None:
                one("absolute part", a["abs"], None, (r["abs"] if r else None), rtop)
            for i, off in a["rel"].items():
                if r is None or (i not in r["rel"] and not rtop):
                    self.report("C04 %s: a pointer target was removed by a comparison with a constant" % name, "pointer target %s lost" % i, case, out, {})
                elif i in r["rel"]:
                    one("offset of %s" % i, off, None, r["rel"][i], rtop)
        else:
            if a["top"] != b["top"]:
                # one side may be anything: every value of the OTHER side is in the intersection and must be kept
                other = b if a["top"] else a
                if r is None:
                    if other["abs"] is not None or other["rel"] or other["top"]:
                        self.report("C04 %s: reported unsatisfiable although one side is unknown (Top) and the other non-empty" % name, "feasible value exists", case, out, {})
                    return
                if other["abs"] is not None:
                    one("absolute part (other side unknown)", other["abs"], None, r["abs"], rtop)
                for i, off in other["rel"].items():
                    if i not in r["rel"] and not rtop:
                        self.report("C04 %s: a pointer target of the known side was removed although the other side is unknown" % name, "pointer target %s lost" % i, case, out, {})
                    elif i in r["rel"]:
                        one("offset of %s (other side unknown)" % i, off, None, r["rel"][i], rtop)
                return
            if a["abs"] is not None and b["abs"] is not None:
                one("absolute part", a["abs"], b["abs"], (r["abs"] if r else None), rtop)
            for i in a["rel"]:
                if i in b["rel"]:
                    one("offset of %s" % i, a["rel"][i], b["rel"][i], (r["rel"].get(i) if r else None), rtop)

    # ---------------------------------------------------------- driver loop
    def run(self, n_cases):
        gen, chk = {"C02": (self.cases_c02, self.check_c02), "C03": (self.cases_c03, self.check_c03), "C04": (self.cases_c04, self.check_c04)}[self.prop]
        done = 0
        while done < n_cases and time.time() < self.t_end:
            cases = gen(min(500, n_cases - done))
            outs = T.run_driver(self.drv, "domain", cases)
            for case, out in zip(cases, outs):
                if "panic" in out or "error" in out:
                    msg = (out.get("panic") or out.get("error"))
                    self.count("panic")
                    self.report("panic in %s: %s" % (case.get("binop") or case.get("kind") or case["op"], msg[:60]), "the operation panics: %s" % msg[:300], case, out, {})
                    continue
                try:
                    chk(case, out)
                except irsmt.SortError as e:
                    self.inconclusive.append("generator produced an ill-sorted case: %s" % e)
                if len(self.samples) < 5 and self.rng.random() < 0.01:
                    self.samples.append({"case": case, "result": out.get("r")})
            done += len(cases)
        uniq = {}
        for v in self.violations:
            uniq.setdefault(v["key"], v)
        self.violations = list(uniq.values())
        return {
            "abstract_cases": self.cases, "cases_per_operation": self.by_op, "queries_discharged": self.queries, "solver_s": round(self.solver_s, 1),
            "undecided_solver_timeout": self.undecided, "samples": self.samples,
            "explanation": "result validation: the real operation runs natively on boundary-biased abstract values of 1/2/4/8 bytes; z3 decides for ALL members of the inputs whether the result covers them",
        }


def run_rv(prop, tier):
    """Returns (violations, inconclusive, coverage dict) of the result-validation part."""
    drv = T.build_driver()
    if drv is None:
        return [], ["driver build failed"], {}
    rng = random.Random(seed() * 31337 + {"C02": 2, "C03": 3, "C04": 4}[prop])
    n = int(os.environ.get("VERIF_RV_CASES", "12000" if tier == "quick" else "200000"))
    budget = float(os.environ.get("VERIF_RV_BUDGET_S", "240" if tier == "quick" else "2400"))
    rv = RV(prop, drv, rng, budget)
    cov = rv.run(n)
    return rv.violations, rv.inconclusive, cov


def replay(prop, path):
    d = json.load(open(path))
    drv = T.build_driver()
    if drv is None:
        return 2
    out = T.run_driver(drv, "domain", [d["case"]])[0]
    rv = RV(prop, drv, random.Random(0), 60)
    chk = {"C02": rv.check_c02, "C03": rv.check_c03, "C04": rv.check_c04}[prop]
    if "panic" in out:
        print("VIOLATION property=%s replay=%s" % (prop, path))
        return 1
    chk(d["case"], out)
    if rv.violations:
        print("VIOLATION property=%s replay=%s" % (prop, path))
        log("  " + rv.violations[0]["what"][:300])
        return 1
    log("replay: the current tree handles this case correctly")
    return 0
