"""C11 — lifting P-Code to the IR preserves behaviour; C12 — lifted and normalized IR is size-consistent.

Both are decided on the same generated P-Code projects, run through the REAL `pcode::Project::normalize`,
`into_ir_project` and `Project::normalize` by the native driver.
"""
import json
import os
import random
import time

import tv_common as T
from tv_common import z3, symexec, irsmt
from common import log, write_evidence, save_replay, finish, seed

import gen_pcode
import pcode_ref
import concrete


def ir_block_paths(ir, sub_tid, blk_tid):
    sub = symexec.find_sub(ir, sub_tid)
    if sub is None:
        return None
    b = [x for x in sub["blocks"] if x["tid"] == blk_tid]
    if not b:
        return None
    # the block under test gets a private tid so that a jump back to itself leaves the block like any other jump
    blk = dict(b[0])
    blk["tid"] = "__block_under_test__"
    one = {"tid": sub_tid, "name": "f", "cconv": None, "blocks": [blk]}
    return symexec.explore(ir, one, max_visits=2), one


def check_block(pblk, regtable, ir, sub_tid, stats):
    """None if the lifted block equals the P-Code reference for all initial states, else a dict."""
    try:
        ref_paths = pcode_ref.exec_block(pblk, regtable)
    except irsmt.SortError as e:
        return {"what": "generator produced an ill-sorted P-Code block: %s" % e, "confirmed": False, "generator_bug": True}
    try:
        r = ir_block_paths(ir, sub_tid, pblk["tid"]["id"])
    except irsmt.SortError as e:
        return {"what": "lifted IR block is ill-sorted: %s" % e, "confirmed": True, "sort_error": True, "state": None}
    if r is None:
        return {"what": "lifted project has no block %s" % pblk["tid"]["id"], "confirmed": True, "state": None}
    ir_paths, one = r
    try:
        symexec.compare_paths(ref_paths, ir_paths, (), stats)
        return None
    except symexec.Mismatch as mm:
        ms = T.ModelState(mm.model)
        ta = pcode_ref.run_block_concrete(pblk, regtable, ms.reg(-1), ms.mem(-1), ms.havoc, ms.oracle)
        tb = concrete.run(ir, one, ms.reg(-1), ms.mem(-1), ms.havoc, ms.oracle, 2)
        ta, tb = T.normalize_trace(ta, ms), T.normalize_trace(tb, ms)
        # the IR interpreter reports a "leave" for a missing successor block in the same way as the reference
        idx = T.traces_differ(ta, tb)
        return {"what": mm.what, "confirmed": idx is not None, "state": ms.stored, "trace_ref": repr(ta[idx] if idx is not None and idx < len(ta) else None)[:500],
                "trace_ir": repr(tb[idx] if idx is not None and idx < len(tb) else None)[:500]}


def sort_check_project(ir, ptr_size=8):
    """C12: every expression of the project is well-sized. Returns list of error strings."""
    errs = []
    n_expr = 0
    for sub in ir["subs"]:
        for b in sub["blocks"]:
            for d in b["defs"]:
                try:
                    if d["k"] == "assign":
                        s = irsmt.check_sorts(d["value"])
                        n_expr += 1
                        if s != d["var"]["size"]:
                            errs.append("%s: assigned value has size %d but variable %s has size %d" % (d["tid"], s, d["var"]["name"], d["var"]["size"]))
                        if "bytesize" in d and d["bytesize"] != s:
                            errs.append("%s: Expression::bytesize reports %d, P-Code rules give %d" % (d["tid"], d["bytesize"], s))
                    elif d["k"] == "load":
                        s = irsmt.check_sorts(d["address"])
                        n_expr += 1
                        if s != ptr_size:
                            errs.append("%s: load address has size %d" % (d["tid"], s))
                    else:
                        s = irsmt.check_sorts(d["address"])
                        irsmt.check_sorts(d["value"])
                        n_expr += 2
                        if s != ptr_size:
                            errs.append("%s: store address has size %d" % (d["tid"], s))
                except irsmt.SortError as e:
                    errs.append("%s: %s" % (d["tid"], e))
            for j in b["jmps"]:
                try:
                    if j["k"] == "cbranch":
                        n_expr += 1
                        if irsmt.check_sorts(j["cond"]) != 1:
                            errs.append("%s: branch condition is not 1 byte" % j["tid"])
                    elif j["k"] in ("branchind", "callind", "return"):
                        n_expr += 1
                        if irsmt.check_sorts(j["target"]) != ptr_size:
                            errs.append("%s: indirect target has size %d" % (j["tid"], irsmt.check_sorts(j["target"])))
                except irsmt.SortError as e:
                    errs.append("%s: %s" % (j["tid"], e))
    return errs, n_expr


def generate(tier, rng):
    projs = gen_pcode.pack(gen_pcode.exhaustive_single())
    n_ex = len(projs)
    n_random = int(os.environ.get("VERIF_PROGRAMS", "600" if tier == "quick" else "20000"))
    g = gen_pcode.Gen(rng)
    for _ in range(n_random):
        projs.append(g.project(rng.randrange(1, 5)))
    return projs, n_ex


def run(prop, tier):
    t0 = time.time()
    rng = random.Random(seed() * 104729 + 5)
    budget_s = float(os.environ.get("VERIF_BUDGET_S", "300" if tier == "quick" else "3000"))
    drv = T.build_driver()
    if drv is None:
        return 2
    projs, n_ex = generate(tier, rng)
    regtable = pcode_ref.RegTable(gen_pcode.REGPROPS)
    stats = {}
    violations, inconclusive, samples = [], [], []
    n_projects = n_blocks = n_disagree = n_undecided = 0
    n_sort_exprs = n_sort_projects = 0
    mnemonics = {}
    CH = 100
    for base in range(0, len(projs), CH):
        if time.time() - t0 > budget_s and base >= n_ex:
            break
        chunk = projs[base:base + CH]
        try:
            outs = T.run_driver(drv, "lift", [{"project": p} for p in chunk])
        except Exception as e:  # noqa: BLE001
            inconclusive.append("driver failed on chunk %d: %s" % (base, e))
            break
        for p, out in zip(chunk, outs):
            n_projects += 1
            if "panic" in out or "error" in out:
                msg = out.get("panic") or out.get("error")
                path = save_replay(prop, "panic_%d" % n_projects, {"property": prop, "engine": "tv", "pcode": p, "panic": msg})
                violations.append({"key": "panic: " + msg[:60], "what": "lifting panics on a generated P-Code project: %s" % msg[:300], "replay": path})
                continue
            ir = out["ir"]
            if prop == "C12":
                tgt = out.get("normalized")
                if tgt is None:
                    path = save_replay(prop, "normpanic_%d" % n_projects, {"property": prop, "engine": "tv", "pcode": p, "panic": out.get("normalize_panic")})
                    violations.append({"key": "panic in normalize", "what": "Project::normalize panics on a lifted project: %s" % out.get("normalize_panic"), "replay": path})
                    continue
                for stage, proj in (("lifted", ir), ("normalized", tgt)):
                    errs, n = sort_check_project(proj)
                    n_sort_exprs += n
                    if errs:
                        n_disagree += 1
                        path = save_replay(prop, "%s_%d" % (stage, n_projects), {"property": prop, "engine": "tv", "pcode": p, "stage": stage, "errors": errs[:10]})
                        key = "%s: %s" % (stage, errs[0].split(": ", 1)[1][:70] if ": " in errs[0] else errs[0][:70])
                        # key by the kind of inconsistency (numbers stripped), so one defect is one finding
                        key = "".join(c for c in key if not c.isdigit())
                        violations.append({"key": key, "what": "%s IR is not size-consistent: %s" % (stage, errs[0]), "replay": path})
                n_sort_projects += 1
                if len(samples) < 3:
                    samples.append({"pcode_block": p["program"]["term"]["subs"][0]["term"]["blocks"][0], "normalized_block": (symexec.find_sub(tgt, "sub_00001000") or {"blocks": [None]})["blocks"][0]})
                continue
            for pblk in p["program"]["term"]["subs"][0]["term"]["blocks"]:
                n_blocks += 1
                for d in pblk["term"]["defs"]:
                    m = d["term"]["rhs"]["mnemonic"]
                    mnemonics[m] = mnemonics.get(m, 0) + 1
                try:
                    res = check_block(pblk, regtable, ir, "sub_00001000", stats)
                except symexec.Undecided:
                    n_undecided += 1
                    continue
                except (RuntimeError, symexec.PathBudget) as e:
                    inconclusive.append("block %s: %s" % (pblk["tid"]["id"], e))
                    continue
                if len(samples) < 4 and pblk["term"]["defs"] and n_projects > n_ex:
                    irb = [b for b in symexec.find_sub(ir, "sub_00001000")["blocks"] if b["tid"] == pblk["tid"]["id"]]
                    samples.append({"pcode_block": pblk, "lifted_block": irb[0] if irb else None})
                if res is None:
                    continue
                if res.get("generator_bug"):
                    inconclusive.append(res["what"])
                    continue
                n_disagree += 1
                if not res["confirmed"]:
                    inconclusive.append("solver model for block %s does not reproduce concretely: %s" % (pblk["tid"]["id"], res["what"]))
                    continue
                ms = sorted(set(d["term"]["rhs"]["mnemonic"] for d in pblk["term"]["defs"]))
                outk = sorted(set(("ram" if (d["term"].get("lhs") or {}).get("address") else "temp" if (d["term"].get("lhs") or {}).get("is_virtual") else "reg") for d in pblk["term"]["defs"] if d["term"].get("lhs")))
                key = "%s -> %s" % ("+".join(ms)[:60], "+".join(outk)) if len(pblk["term"]["defs"]) == 1 else "multi-instruction block: " + res["what"][:60]
                path = save_replay(prop, "blk_%d" % n_blocks, {"property": prop, "engine": "tv", "pcode": p, "block": pblk["tid"]["id"], "state": res.get("state"), "what": res["what"],
                                                               "trace_ref": res.get("trace_ref"), "trace_ir": res.get("trace_ir")})
                violations.append({"key": key, "what": "lifted block differs from the P-Code reference (%s): %s | reference: %s | IR: %s" % (key, res["what"], res.get("trace_ref"), res.get("trace_ir")), "replay": path})
    uniq = {}
    for v in violations:
        uniq.setdefault(v["key"], v)
    violations = list(uniq.values())
    if prop == "C12":
        coverage = {
            "explanation": "sort discipline: every expression of every generated program after lifting and after the full normalization is rebuilt by the strictly sorted SMT front end (engines/tv/irsmt.py); "
                           "a width mismatch raises. The program quantifier is the generator's enumeration (%d exhaustive single-instruction projects + seeded random ones), not a solver variable; "
                           "also compares the library's Expression::bytesize with the P-Code size rules for every assigned value" % n_ex,
            "programs": n_sort_projects, "expressions_checked": n_sort_exprs, "disagreements_checked": n_disagree, "samples": samples or [{}],
            "evaluations": n_sort_projects, "distinct_nontrivial": n_sort_projects,
            "inconclusive": inconclusive[:10],
        }
        level = "other"
    else:
        coverage = {
            "programs": n_blocks, "projects": n_projects, "disagreements_checked": n_disagree, "samples": samples or [{}],
            "blocks_undecided_solver_timeout": n_undecided,
            "mnemonics_exercised": mnemonics,
            "path_pairs": stats.get("pairs", 0), "queries_discharged": stats.get("queries", 0), "solver_s": round(stats.get("solver_s", 0.0), 1),
            "functions_encoded": ["pcode::Project::normalize (add_load_defs_for_implicit_ram_access)", "pcode::Project::into_ir_project (Def::into_ir_def, Jmp -> IR, mnemonic mapping, replace_subregister_in_block, replace_input_subregister)"],
            "bounds": "one block at a time, <= 8 P-Code instructions per block, varnodes of 1..32 bytes over a 9-base-register table with nested/interior/same-name-smaller sub-registers; "
                      "ALL initial base-register contents, temporaries and memory are solver variables; %d exhaustive single-instruction projects (every mnemonic x operand kind) + seeded random blocks" % n_ex,
            "inconclusive": inconclusive[:10],
        }
        level = "translation_validation"
    assumptions = [
        "P-Code reference semantics in engines/tv/pcode_ref.py (byte-aliased base registers, inputs read in order input0..input2, RAM varnodes are memory accesses of their size)",
        "operator semantics shared with the IR encoder (C11 is about the translation, C01 about the operators); float operations are uninterpreted functions",
        "calls havoc all base registers and memory identically on both sides; CALLOTHER ends the block's path (no CFG edge in the analyzer)",
        "every solver model is replayed by two concrete interpreters (P-Code and IR) before it is reported",
    ]
    known_keys = {f["key"] for f in __import__("common").load_known(prop)}
    write_evidence(prop, tier, level, coverage, assumptions, time.time() - t0, len([v for v in violations if v["key"] not in known_keys]))
    return finish(prop, violations, inconclusive)


def replay(prop, path):
    d = json.load(open(path))
    drv = T.build_driver()
    if drv is None:
        return 2
    out = T.run_driver(drv, "lift", [{"project": d["pcode"]}])[0]
    if "panic" in out or "error" in out:
        print("VIOLATION property=%s replay=%s" % (prop, path))
        return 1
    if prop == "C12":
        bad = []
        for stage in ("ir", "normalized"):
            if out.get(stage):
                errs, _ = sort_check_project(out[stage])
                bad += errs
        if bad or out.get("normalize_panic"):
            print("VIOLATION property=%s replay=%s" % (prop, path))
            log("  " + "; ".join(bad[:3]))
            return 1
        log("replay: project is size-consistent with the current tree")
        return 0
    regtable = pcode_ref.RegTable(gen_pcode.REGPROPS)
    pblk = [b for b in d["pcode"]["program"]["term"]["subs"][0]["term"]["blocks"] if b["tid"]["id"] == d["block"]][0]
    ms = T.ModelState(None, d.get("state") or {"regs": {}, "mem": {}, "uf": {}})
    sub = symexec.find_sub(out["ir"], "sub_00001000")
    one = {"tid": "sub_00001000", "name": "f", "cconv": None, "blocks": [dict(b, tid="__block_under_test__") for b in sub["blocks"] if b["tid"] == d["block"]]}
    ta = pcode_ref.run_block_concrete(pblk, regtable, ms.reg(-1), ms.mem(-1), ms.havoc, ms.oracle)
    tb = concrete.run(out["ir"], one, ms.reg(-1), ms.mem(-1), ms.havoc, ms.oracle, 2)
    idx = T.traces_differ(T.normalize_trace(ta, ms), T.normalize_trace(tb, ms))
    if idx is not None:
        print("VIOLATION property=%s replay=%s" % (prop, path))
        return 1
    log("replay: lifted block agrees with the P-Code reference on the stored state")
    return 0
