"""Generator of P-Code projects in the extractor's JSON schema (for C11 / C12).

Register table: x86-64-like with nested sub-registers (8/4/2/1-byte views, a high-byte view with lsb = 1),
vector lanes whose offset differs from their width, flags, and same-name smaller register varnodes
(e.g. `RDI` with size 4, as emitted for some architectures). Temporaries, constants and RAM varnodes.
"""

def _regprops():
    props = []
    for b, e, w, lo, hi in [("RAX", "EAX", "AX", "AL", "AH"), ("RBX", "EBX", "BX", "BL", "BH"), ("RCX", "ECX", "CX", "CL", None), ("RDX", "EDX", "DX", "DL", None)]:
        props.append({"register": b, "base_register": b, "lsb": 0, "size": 8})
        props.append({"register": e, "base_register": b, "lsb": 0, "size": 4})
        props.append({"register": w, "base_register": b, "lsb": 0, "size": 2})
        props.append({"register": lo, "base_register": b, "lsb": 0, "size": 1})
        if hi:
            props.append({"register": hi, "base_register": b, "lsb": 1, "size": 1})
    for b, e in [("RSI", "ESI"), ("RDI", "EDI"), ("RBP", "EBP"), ("RSP", "ESP")]:
        props.append({"register": b, "base_register": b, "lsb": 0, "size": 8})
        props.append({"register": e, "base_register": b, "lsb": 0, "size": 4})
    for f in ["ZF", "CF", "SF", "OF"]:
        props.append({"register": f, "base_register": f, "lsb": 0, "size": 1})
    props.append({"register": "YMM0", "base_register": "YMM0", "lsb": 0, "size": 32})
    props.append({"register": "XMM0", "base_register": "YMM0", "lsb": 0, "size": 16})
    props.append({"register": "XMM0_Qa", "base_register": "YMM0", "lsb": 0, "size": 8})
    props.append({"register": "XMM0_Qb", "base_register": "YMM0", "lsb": 8, "size": 8})
    props.append({"register": "XMM0_Da", "base_register": "YMM0", "lsb": 0, "size": 4})
    props.append({"register": "XMM0_Db", "base_register": "YMM0", "lsb": 4, "size": 4})
    props.append({"register": "XMM0_Dc", "base_register": "YMM0", "lsb": 8, "size": 4})
    props.append({"register": "XMM0_Wb", "base_register": "YMM0", "lsb": 2, "size": 2})
    props.append({"register": "XMM0_Bb", "base_register": "YMM0", "lsb": 1, "size": 1})
    return props


REGPROPS = _regprops()
BASES = {p["register"]: p["size"] for p in REGPROPS if p["register"] == p["base_register"]}

POOL = {
    32: ["YMM0"],
    16: ["XMM0"],
    8: ["RAX", "RBX", "RCX", "RDX", "RSI", "RDI", "RBP", "RSP", "XMM0_Qa", "XMM0_Qb"],
    4: ["EAX", "EBX", "ECX", "EDX", "ESI", "EDI", "EBP", "XMM0_Da", "XMM0_Db", "XMM0_Dc", "RDI", "RAX", "RSI"],  # incl. same-name smaller
    2: ["AX", "BX", "CX", "DX", "XMM0_Wb", "RBX"],
    1: ["AL", "AH", "BL", "BH", "CL", "DL", "ZF", "CF", "SF", "OF", "XMM0_Bb"],
}


def reg(name, size):
    return {"name": name, "value": None, "address": None, "size": size, "is_virtual": False}


def temp(name, size):
    return {"name": name, "value": None, "address": None, "size": size, "is_virtual": True}


def const(val, size):
    return {"name": None, "value": "%x" % (val & ((1 << (8 * size)) - 1)), "address": None, "size": size, "is_virtual": False}


def ram(addr, size):
    return {"name": None, "value": None, "address": "%08x" % addr, "size": size, "is_virtual": False}


def tid(i, addr):
    return {"id": i, "address": "%08x" % addr}


SAME_BIN = ["INT_ADD", "INT_SUB", "INT_XOR", "INT_AND", "INT_OR", "INT_MULT", "INT_DIV", "INT_REM", "INT_SDIV", "INT_SREM", "FLOAT_ADD", "FLOAT_SUB", "FLOAT_MULT", "FLOAT_DIV"]
CMP_BIN = ["INT_EQUAL", "INT_NOTEQUAL", "INT_LESS", "INT_SLESS", "INT_LESSEQUAL", "INT_SLESSEQUAL", "INT_CARRY", "INT_SCARRY", "INT_SBORROW", "FLOAT_EQUAL", "FLOAT_NOTEQUAL", "FLOAT_LESS", "FLOAT_LESSEQUAL"]
SHIFT = ["INT_LEFT", "INT_RIGHT", "INT_SRIGHT"]
BOOL = ["BOOL_AND", "BOOL_OR", "BOOL_XOR"]
UNARY = ["INT_NEGATE", "INT_2COMP", "FLOAT_NEG", "FLOAT_ABS", "FLOAT_SQRT", "FLOAT_CEIL", "FLOAT_FLOOR", "FLOAT_ROUND"]
EXT = ["INT_ZEXT", "INT_SEXT", "INT2FLOAT", "FLOAT2FLOAT"]
COUNT = ["POPCOUNT", "LZCOUNT", "TRUNC"]


class Gen:
    def __init__(self, rng):
        self.rng = rng
        self.n = 0
        self.addr = 0x1000

    def vin(self, size, allow_ram=True):
        r = self.rng.random()
        if r < 0.55 and size in POOL:
            return reg(self.rng.choice(POOL[size]), size)
        if r < 0.7:
            return temp("$U%d" % self.rng.randrange(1, 4), size)
        if r < 0.85 or not allow_ram or size > 8:
            return const(self.rng.choice([0, 1, 2, 0xff, 0x80, 0x7fffffff, 0xffffffffffffffff, 0x8000000000000000, 0x10, 8]), size)
        return ram(0x4000 + 8 * self.rng.randrange(0, 4), size)

    def vout(self, size, allow_ram=True):
        r = self.rng.random()
        if r < 0.7 and size in POOL:
            return reg(self.rng.choice(POOL[size]), size)
        if r < 0.88 or not allow_ram or size > 8:
            return temp("$U%d" % self.rng.randrange(1, 4), size)
        return ram(0x5000 + 8 * self.rng.randrange(0, 4), size)

    def deftid(self):
        self.n += 1
        return tid("instr_%08x_%d" % (self.addr, self.n), self.addr)

    def mk(self, lhs, mnemonic, i0=None, i1=None, i2=None):
        return {"tid": self.deftid(), "term": {"lhs": lhs, "rhs": {"mnemonic": mnemonic, "input0": i0, "input1": i1, "input2": i2}}}

    def rand_def(self):
        rng = self.rng
        size = rng.choice([1, 2, 4, 4, 8, 8, 8, 16])
        k = rng.random()
        if k < 0.12:
            return self.mk(self.vout(size), "COPY", self.vin(size))
        if k < 0.34:
            if size == 16:
                return self.mk(self.vout(16), rng.choice(["INT_AND", "INT_OR", "INT_XOR", "INT_ADD", "INT_SUB"]), self.vin(16), self.vin(16))
            s = min(size, 8)
            return self.mk(self.vout(s), rng.choice(SAME_BIN), self.vin(s), self.vin(s))
        if k < 0.46:
            s = min(size, 8)
            return self.mk(self.vout(1), rng.choice(CMP_BIN), self.vin(s), self.vin(s))
        if k < 0.52:
            s = min(size, 8)
            return self.mk(self.vout(s), rng.choice(SHIFT), self.vin(s), self.vin(rng.choice([1, 4, s])))
        if k < 0.57:
            return self.mk(self.vout(1), rng.choice(BOOL), self.vin(1), self.vin(1))
        if k < 0.62:
            s = min(size, 8)
            return self.mk(self.vout(s), rng.choice(UNARY), self.vin(s))
        if k < 0.64:
            if rng.random() < 0.5:
                return self.mk(self.vout(1), "BOOL_NEGATE", self.vin(1))
            return self.mk(self.vout(1), "FLOAT_NAN", self.vin(rng.choice([4, 8])))
        if k < 0.72:
            small, big = rng.choice([(1, 2), (1, 4), (2, 4), (4, 8), (1, 8), (2, 8), (8, 16), (4, 16)])
            return self.mk(self.vout(big), rng.choice(EXT), self.vin(small))
        if k < 0.76:
            s = rng.choice([1, 2, 4, 8])
            return self.mk(self.vout(rng.choice([1, 4, 8, s])), rng.choice(COUNT), self.vin(s))
        if k < 0.82:
            a, b = rng.choice([(1, 1), (2, 2), (4, 4), (1, 4), (8, 8), (4, 2)])
            if a + b not in POOL and rng.random() < 0.5:
                return self.mk(temp("$U%d" % rng.randrange(1, 4), a + b), "PIECE", self.vin(a), self.vin(b))
            return self.mk(self.vout(a + b) if (a + b) in POOL else temp("$U5", a + b), "PIECE", self.vin(a), self.vin(b))
        if k < 0.9:
            big = rng.choice([2, 4, 8, 16])
            low = rng.randrange(0, big)
            osz = rng.choice([s for s in (1, 2, 4, 8) if s + low <= big] or [1])
            if osz + low > big:
                low = 0
            return self.mk(self.vout(osz), "SUBPIECE", self.vin(big, allow_ram=False), const(low, 4))
        if k < 0.95:
            s = rng.choice([1, 2, 4, 8])
            return self.mk(self.vout(s, allow_ram=False), "LOAD", const(0x1b1, 8), self.vin(8))
        s = rng.choice([1, 2, 4, 8])
        return self.mk(None, "STORE", const(0x1b1, 8), self.vin(8), self.vin(s))

    def idioms(self):
        """The cast-to-base idioms the lifter special-cases: sub = op; base = ZEXT/SEXT sub, and loads into sub-registers."""
        rng = self.rng
        sub, base = rng.choice([("EAX", "RAX"), ("EBX", "RBX"), ("AX", "RAX"), ("AL", "RAX"), ("AH", "RAX"), ("EDI", "RDI"), ("XMM0_Da", "YMM0"), ("XMM0_Dc", "YMM0")])
        ssize = next(p["size"] for p in REGPROPS if p["register"] == sub)
        bsize = next(p["size"] for p in REGPROPS if p["register"] == base)
        first = rng.choice(["op", "load", "copy"])
        if first == "op":
            d1 = self.mk(reg(sub, ssize), rng.choice(["INT_ADD", "INT_XOR", "INT_SUB"]), self.vin(ssize), self.vin(ssize))
        elif first == "load":
            d1 = self.mk(reg(sub, ssize), "LOAD", const(0x1b1, 8), self.vin(8))
        else:
            d1 = self.mk(reg(sub, ssize), "COPY", self.vin(ssize))
        follow = rng.choice(["zext", "sext", "other_cast", "none", "zext_other", "popcount"])
        if follow == "none":
            return [d1]
        if follow == "zext_other":
            other = rng.choice(["RBX", "RCX"])
            return [d1, self.mk(reg(other, 8), "INT_ZEXT", reg(sub, ssize))] if ssize < 8 else [d1]
        if follow == "popcount":
            return [d1, self.mk(reg(base, bsize), "POPCOUNT", reg(sub, ssize))]
        m = {"zext": "INT_ZEXT", "sext": "INT_SEXT", "other_cast": "INT2FLOAT"}[follow]
        return [d1, self.mk(reg(base, bsize), m, reg(sub, ssize))]

    def rand_jmps(self, blk_index, nblocks):
        rng = self.rng
        self.n += 1
        jt = lambda: tid("instr_%08x_%d" % (self.addr, self.n), self.addr)  # noqa: E731
        nxt = tid("blk_%08x" % (0x1000 + 0x10 * ((blk_index + 1) % nblocks)), 0x1000 + 0x10 * ((blk_index + 1) % nblocks))
        oa = 0x1000 + 0x10 * rng.randrange(nblocks)
        other = tid("blk_%08x" % oa, oa)
        k = rng.random()

        def J(m, goto=None, call=None, condition=None, hints=None):
            self.n += 1
            return {"tid": jt(), "term": {"mnemonic": m, "goto": goto, "call": call, "condition": condition, "target_hints": hints}}

        if k < 0.3:
            cond = reg(rng.choice(["ZF", "CF", "AL", "BH"]), 1) if rng.random() < 0.8 else temp("$U1", 1)
            return [J("CBRANCH", goto={"Direct": other}, condition=cond), J("BRANCH", goto={"Direct": nxt})]
        if k < 0.45:
            return [J("BRANCH", goto={"Direct": nxt})]
        if k < 0.6:
            tgt = rng.choice([reg("RAX", 8), reg("XMM0_Qb", 8), temp("$U2", 8), ram(0x6000, 8)])
            hints = None if rng.random() < 0.5 else ["%08x" % (0x1000 + 0x10 * rng.randrange(nblocks))]
            return [J("BRANCHIND", goto={"Indirect": tgt}, hints=hints)]
        if k < 0.7:
            return [J("CALL", call={"target": {"Direct": tid("sub_00002000", 0x2000)}, "return": {"Direct": nxt}, "call_string": None})]
        if k < 0.8:
            tgt = rng.choice([reg("RBX", 8), ram(0x6008, 8), temp("$U3", 8)])
            return [J("CALLIND", call={"target": {"Indirect": tgt}, "return": {"Direct": nxt} if rng.random() < 0.8 else None, "call_string": None})]
        if k < 0.85:
            return [J("CALLOTHER", call={"target": None, "return": {"Direct": nxt}, "call_string": "syscall"})]
        if k < 0.97:
            return [J("RETURN", goto={"Indirect": rng.choice([reg("RCX", 8), temp("$U2", 8), reg("XMM0_Qa", 8)])})]
        return []

    def project(self, nblocks=3):
        rng = self.rng
        blocks = []
        for i in range(nblocks):
            self.addr = 0x1000 + 0x10 * i
            defs = []
            for _ in range(rng.randrange(0, 5)):
                if rng.random() < 0.25:
                    defs += self.idioms()
                else:
                    defs.append(self.rand_def())
            blocks.append({"tid": tid("blk_%08x" % self.addr, self.addr), "term": {"defs": defs, "jmps": self.rand_jmps(i, nblocks)}})
        return wrap(blocks)


def wrap(blocks):
    callee = {"tid": tid("sub_00002000", 0x2000), "term": {"name": "g", "calling_convention": None, "blocks": [
        {"tid": tid("blk_00002000", 0x2000), "term": {"defs": [], "jmps": [{"tid": tid("instr_00002000_1", 0x2000), "term": {"mnemonic": "RETURN", "goto": {"Indirect": reg("RCX", 8)}, "call": None, "condition": None, "target_hints": None}}]}}]}}
    return {
        "program": {"tid": tid("prog_00001000", 0x1000), "term": {
            "subs": [{"tid": tid("sub_00001000", 0x1000), "term": {"name": "f", "calling_convention": None, "blocks": blocks}}, callee],
            "extern_symbols": [], "entry_points": [], "image_base": "0"}},
        "cpu_architecture": "x86_64",
        "stack_pointer_register": reg("RSP", 8),
        "register_properties": REGPROPS,
        "register_calling_convention": [{"calling_convention": "__stdcall", "integer_parameter_register": ["RDI", "RSI", "RDX", "RCX"], "float_parameter_register": ["XMM0_Qa"],
                                         "return_register": ["RAX"], "float_return_register": ["XMM0_Qa"], "unaffected_register": ["RBX", "RBP"], "killed_by_call_register": ["RAX", "RCX"]}],
        "datatype_properties": {"char_size": 1, "double_size": 8, "float_size": 4, "integer_size": 4, "long_double_size": 8, "long_long_size": 8, "long_size": 8, "pointer_size": 8, "short_size": 2},
    }


def exhaustive_single(max_items=None):
    """Every mnemonic x output kind x input kind for single-instruction blocks (deterministic)."""
    import random
    out = []
    g = Gen(random.Random(1))
    outs = lambda s: [reg(POOL[s][0], s), reg(POOL[s][-1], s), temp("$U1", s)] + ([reg("AH", 1), reg("XMM0_Bb", 1)] if s == 1 else []) + ([reg("XMM0_Dc", 4), reg("RDI", 4)] if s == 4 else []) + ([ram(0x5000, s)] if s <= 8 else [])  # noqa: E731
    ins = lambda s: [reg(POOL[s][0], s), reg(POOL[s][-1], s), temp("$U2", s), const(0x81, s)] + ([reg("AH", 1)] if s == 1 else []) + ([reg("XMM0_Dc", 4), reg("RDI", 4)] if s == 4 else []) + ([ram(0x4000, s)] if s <= 8 else [])  # noqa: E731
    defs = []
    for s in (1, 4, 8):
        for m in SAME_BIN:
            for o in outs(s):
                for a in ins(s)[:3]:
                    defs.append((o, m, a, ins(s)[-1], None))
            for a in ins(s):
                defs.append((outs(s)[0], m, a, ins(s)[1], None))
                defs.append((outs(s)[0], m, ins(s)[0], a, None))
        for m in CMP_BIN:
            for o in outs(1):
                defs.append((o, m, ins(s)[0], ins(s)[1], None))
            for a in ins(s):
                defs.append((outs(1)[0], m, a, ins(s)[-2], None))
        for m in SHIFT:
            for a in ins(s):
                defs.append((outs(s)[0], m, a, ins(1)[0], None))
                defs.append((outs(s)[1], m, ins(s)[0], a, None))
        for m in UNARY + ["COPY"]:
            for o in outs(s):
                for a in ins(s):
                    defs.append((o, m, a, None, None))
    # 16-byte operands with constants whose printed 64-bit value has bit 63 set / clear (constants wider than 8 bytes are zero-extended)
    for m in ("INT_AND", "INT_OR", "INT_ADD", "INT_XOR", "COPY"):
        for cv in (0xffffffffffffffff, 0x8000000000000000, 0x7fffffffffffffff, 0xffffffff, 1 << 100):
            for o in (reg("XMM0", 16), temp("$U1", 16)):
                if m == "COPY":
                    defs.append((o, m, const(cv, 16), None, None))
                else:
                    defs.append((o, m, reg("XMM0", 16), const(cv, 16), None))
                    defs.append((o, m, const(cv, 16), temp("$U2", 16), None))
    for cv in (0xffffffffffffffff, 0x8000000000000000):
        defs.append((None, "STORE", const(0x1b1, 8), reg("RDI", 8), const(cv, 16)))
        defs.append((reg("YMM0", 32), "INT_ZEXT", const(cv, 16), None, None))
    for m in BOOL:
        for o in outs(1):
            for a in ins(1):
                defs.append((o, m, a, ins(1)[0], None))
    for o in outs(1):
        for a in ins(1):
            defs.append((o, "BOOL_NEGATE", a, None, None))
        # FLOAT_NAN: float operand of 4 or 8 bytes, 1-byte boolean result
        for s in (4, 8):
            for a in ins(s):
                defs.append((o, "FLOAT_NAN", a, None, None))
    for small, big in [(1, 2), (1, 4), (2, 4), (4, 8), (1, 8), (2, 8), (8, 16), (4, 16)]:
        for m in EXT:
            for o in outs(big) if big in POOL else [temp("$U1", big)]:
                for a in ins(small) if small in POOL else [temp("$U2", small)]:
                    defs.append((o, m, a, None, None))
    for s in (1, 2, 4, 8):
        for m in COUNT:
            for osz in (1, 4, 8):
                for a in ins(s) if s in POOL else [temp("$U2", s)]:
                    defs.append((outs(osz)[0], m, a, None, None))
                    defs.append((outs(osz)[-1], m, a, None, None))
    for a, b in [(1, 1), (2, 2), (4, 4), (8, 8), (1, 4), (4, 2)]:
        for x in (ins(a) if a in POOL else [temp("$U2", a)]):
            for y in (ins(b) if b in POOL else [temp("$U3", b)])[:4]:
                o = (outs(a + b) if (a + b) in POOL else [temp("$U1", a + b)])
                for oo in o:
                    defs.append((oo, "PIECE", x, y, None))
    for big in (2, 4, 8, 16, 32):
        for low in range(0, big):
            for osz in (1, 2, 4, 8, 16):
                if low + osz <= big and osz in POOL:
                    for a in (ins(big)[:3] if big in POOL and big <= 16 else [reg(POOL[big][0], big)]):
                        for o in outs(osz)[:4]:
                            defs.append((o, "SUBPIECE", a, const(low, 4), None))
    for s in (1, 2, 4, 8):
        for o in (outs(s)[:-1] if s in POOL else [temp("$U1", s)]):
            for p in ins(8):
                defs.append((o, "LOAD", const(0x1b1, 8), p, None))
        for p in ins(8):
            for v in (ins(s) if s in POOL else [temp("$U2", s)]):
                defs.append((None, "STORE", const(0x1b1, 8), p, v))
    for (o, m, a, b, c) in defs:
        g.addr = 0x1000
        if m == "STORE":
            d = g.mk(None, "STORE", a, b, c)
        else:
            d = g.mk(o, m, a, b, c)
        out.append(d)
    return out


def pack(defs, per_block=1):
    """Pack single defs into projects of several one-def blocks (lifting is per block)."""
    projects = []
    NB = 8
    for base in range(0, len(defs), NB):
        blocks = []
        for i, d in enumerate(defs[base:base + NB]):
            addr = 0x1000 + 0x10 * i
            d = dict(d)
            d["tid"] = tid("instr_%08x_1" % addr, addr)
            nxt = 0x1000 + 0x10 * ((i + 1) % NB)
            j = {"tid": tid("instr_%08x_2" % addr, addr), "term": {"mnemonic": "BRANCH", "goto": {"Direct": tid("blk_%08x" % nxt, nxt)}, "call": None, "condition": None, "target_hints": None}}
            blocks.append({"tid": tid("blk_%08x" % addr, addr), "term": {"defs": [d], "jmps": [j]}})
        projects.append(wrap(blocks))
    return projects
