"""Bounded symbolic execution of one IR function (mini-IR JSON) and trace equivalence of two versions of it.

The program is concrete, the machine state is symbolic: entry registers, all of memory and every call's
effect are z3 variables shared by both versions. Every path (up to a block-visit budget) yields a path
condition, an event trace and — if the path ends inside the budget — a final snapshot.
"""
import z3
from irsmt import Encoder, SortError, expr_size

PTR_BITS = 64


class Path:
    __slots__ = ("pc", "events", "end", "choices")

    def __init__(self):
        self.pc = []       # list of z3 Bool
        self.events = []   # list of (kind, detail, [z3 terms])
        self.end = None    # None while running; "return"/"deadend"/... or "budget"
        self.choices = []  # ids of nondeterministic indirect-jump choices


class State:
    def __init__(self, project, prefix=""):
        self.regs = {}       # (name,size) -> z3 term (physical registers and anything non-temp)
        self.temps = {}
        self.mem = z3.Array("mem0", z3.BitVecSort(PTR_BITS), z3.BitVecSort(8))
        self.calls = 0
        self.le = project.get("little_endian", True)

    def copy(self):
        s = State.__new__(State)
        s.regs = dict(self.regs)
        s.temps = dict(self.temps)
        s.mem = self.mem
        s.calls = self.calls
        s.le = self.le
        return s

    def lookup(self, name, size, temp):
        d = self.temps if temp else self.regs
        key = (name, size)
        if key not in d:
            # never written on this path: the entry value (shared between both program versions)
            d[key] = z3.BitVec("%s0_%s_%d" % ("t" if temp else "r", name, size), size * 8)
        return d[key]

    def assign(self, var, val):
        d = self.temps if var.get("temp") else self.regs
        d[(var["name"], var["size"])] = val

    def load(self, addr, size):
        bs = [z3.Select(self.mem, addr + z3.BitVecVal(i, PTR_BITS)) for i in range(size)]
        if self.le:
            bs = bs[::-1]
        return z3.Concat(*bs) if size > 1 else bs[0]

    def store(self, addr, val, size):
        for i in range(size):
            byte = z3.Extract(8 * i + 7, 8 * i, val) if self.le else z3.Extract(8 * (size - 1 - i) + 7, 8 * (size - 1 - i), val)
            self.mem = z3.Store(self.mem, addr + z3.BitVecVal(i, PTR_BITS), byte)

    def havoc(self, project, k):
        """Effect of the k-th call on this path: every physical register and all of memory become unknown."""
        for r in project["regs"]:
            self.regs[(r["name"], r["size"])] = z3.BitVec("havoc%d_%s_%d" % (k, r["name"], r["size"]), r["size"] * 8)
        self.mem = z3.Array("havocmem%d" % k, z3.BitVecSort(PTR_BITS), z3.BitVecSort(8))
        self.temps = {}

    def snapshot(self, project):
        # memory is not part of the snapshot term list: both versions start from the same memory and every store
        # event (address, size, value) is compared in order, so equal store sequences imply equal memory
        return [(r["name"], self.lookup(r["name"], r["size"], False)) for r in sorted(project["regs"], key=lambda r: r["name"])]


def find_sub(project, sub_tid):
    for s in project["subs"]:
        if s["tid"] == sub_tid:
            return s
    return None


def explore(project, sub, max_visits=24, max_paths=256):
    """All paths of `sub` from its first block. Returns list of Path."""
    blocks = {b["tid"]: b for b in sub["blocks"]}
    done = []
    if not sub["blocks"]:
        return done
    work = [(sub["blocks"][0]["tid"], State(project), Path(), 0)]
    while work:
        tid, st, path, visits = work.pop()
        if len(done) + len(work) > max_paths:
            raise PathBudget("path budget exceeded")
        blk = blocks.get(tid)
        if blk is None:
            # jump target outside of the function (e.g. artificial sink): the path ends
            path.events.append(("leave", tid, []))
            path.end = "leave"
            path.events.append(("snapshot", "", st.snapshot(project)))
            done.append(path)
            continue
        if visits >= max_visits:
            path.end = "budget"
            done.append(path)
            continue
        enc = Encoder(st.lookup)
        for d in blk["defs"]:
            k = d["k"]
            if k == "assign":
                v = enc.enc(d["value"])
                if v.size() != d["var"]["size"] * 8:
                    raise SortError("assignment of a %d-bit value to %s:%d" % (v.size(), d["var"]["name"], d["var"]["size"]))
                st.assign(d["var"], v)
            elif k == "load":
                a = enc.enc(d["address"])
                if a.size() != PTR_BITS:
                    raise SortError("load address has %d bits" % a.size())
                path.events.append(("load", str(d["var"]["size"]), [a]))
                st.assign(d["var"], st.load(a, d["var"]["size"]))
            elif k == "store":
                a = enc.enc(d["address"])
                v = enc.enc(d["value"])
                if a.size() != PTR_BITS:
                    raise SortError("store address has %d bits" % a.size())
                path.events.append(("store", str(v.size() // 8), [a, v]))
                st.store(a, v, v.size() // 8)
        jmps = blk["jmps"]
        if not jmps:
            path.end = "deadend"
            path.events.append(("snapshot", "deadend", st.snapshot(project)))
            done.append(path)
            continue
        # conditional jump first (if any), then the final jump
        idx = 0
        pending = [(st, path)]
        if jmps[0]["k"] == "cbranch" and len(jmps) >= 1:
            c = enc.enc(jmps[0]["cond"])
            if c.size() != 8:
                raise SortError("branch condition has %d bits" % c.size())
            taken = c != 0
            st_t, p_t = st.copy(), Path()
            p_t.pc, p_t.events, p_t.choices = path.pc + [taken], list(path.events), list(path.choices)
            work.append((jmps[0]["target"], st_t, p_t, visits + 1))
            path.pc = path.pc + [z3.Not(taken)]
            idx = 1
            if len(jmps) == 1:
                path.end = "deadend"
                path.events.append(("snapshot", "deadend", st.snapshot(project)))
                done.append(path)
                continue
        j = jmps[idx]
        k = j["k"]
        if k == "branch":
            work.append((j["target"], st, path, visits + 1))
        elif k == "cbranch":
            raise SortError("two conditional jumps in one block")
        elif k == "branchind":
            t = enc.enc(j["target"])
            path.events.append(("jmpind", "", [t]))
            ijt = blk.get("ijt", [])
            if not ijt:
                path.end = "deadend"
                path.events.append(("snapshot", "jmpind", st.snapshot(project)))
                done.append(path)
            else:
                for n, tgt in enumerate(ijt):
                    st2, p2 = st.copy(), Path()
                    p2.pc, p2.events, p2.choices = list(path.pc), list(path.events), path.choices + [tgt]
                    work.append((tgt, st2, p2, visits + 1))
        elif k in ("call", "callind", "callother"):
            if k == "call":
                path.events.append(("call", j["target"], []))
            elif k == "callind":
                path.events.append(("callind", "", [enc.enc(j["target"])]))
            else:
                path.events.append(("callother", j.get("desc", ""), []))
            path.events.append(("snapshot", "call", st.snapshot(project)))
            # CallOther: the analyzer's CFG has no edge from a CallOther to its return target (graph.rs: "they are
            # dead ends in the control flow graph"), so the continuation is outside the modelled behaviour.
            if j.get("ret") is None or k == "callother":
                path.end = "noreturn"
                done.append(path)
            else:
                st.havoc(project, st.calls)
                st.calls += 1
                work.append((j["ret"], st, path, visits + 1))
        elif k == "return":
            t = enc.enc(j["target"])
            path.events.append(("return", "", [t]))
            path.events.append(("snapshot", "return", st.snapshot(project)))
            path.end = "return"
            done.append(path)
        else:
            raise SortError("unknown jump kind %r" % k)
    return done


class Undecided(Exception):
    pass


class PathBudget(Exception):
    pass


class Mismatch(Exception):
    def __init__(self, what, model, detail):
        Exception.__init__(self, what)
        self.what, self.model, self.detail = what, model, detail
        self.choices = []


def equivalent(project_a, sub_a, project_b, sub_b, assumptions=(), max_visits=24, stats=None, timeout_ms=6000):
    """Check trace equivalence of two versions of a function for all initial states. Returns None or raises Mismatch.

    stats (dict) gets 'pairs', 'queries', 'solver_s' incremented.
    """
    pa = explore(project_a, sub_a, max_visits)
    pb = explore(project_b, sub_b, max_visits)
    return compare_paths(pa, pb, assumptions, stats, timeout_ms)


def compare_paths(pa, pb, assumptions=(), stats=None, timeout_ms=6000):
    """Compare two path sets (same symbolic inputs): every jointly feasible pair must have equal event traces."""
    import time
    s = z3.Solver()
    s.set("timeout", timeout_ms)
    for a in assumptions:
        s.add(a)
    if stats is None:
        stats = {}

    def q(*cs):
        t0 = time.time()
        s.push()
        for c in cs:
            s.add(c)
        r = s.check()
        m = s.model() if r == z3.sat else None
        s.pop()
        stats["queries"] = stats.get("queries", 0) + 1
        stats["solver_s"] = stats.get("solver_s", 0.0) + time.time() - t0
        if r == z3.unknown:
            raise Undecided("solver returned unknown (timeout %d ms)" % timeout_ms)
        return r, m

    for x in pa:
        for y in pb:
            if x.choices != y.choices[:len(x.choices)] and y.choices != x.choices[:len(y.choices)]:
                continue
            try:
                _compare_pair(x, y, q, stats)
            except Mismatch as mm:
                mm.choices = x.choices if len(x.choices) >= len(y.choices) else y.choices
                raise
    stats["paths_a"] = stats.get("paths_a", 0) + len(pa)
    stats["paths_b"] = stats.get("paths_b", 0) + len(pb)
    return None


def _compare_pair(x, y, q, stats):
    if True:
        if True:
            pc = x.pc + y.pc
            r, _ = q(*pc)
            if r != z3.sat:
                return
            stats["pairs"] = stats.get("pairs", 0) + 1
            n = min(len(x.events), len(y.events))
            for i in range(n):
                ex, ey = x.events[i], y.events[i]
                if ex[0] != ey[0] or ex[1] != ey[1]:
                    _, m = q(*pc)
                    raise Mismatch("event %d differs: %s %s vs %s %s" % (i, ex[0], ex[1], ey[0], ey[1]), m, (i, ex[0], ey[0]))
                if ex[0] == "snapshot":
                    diffs = []
                    for (na, ta), (nb, tb) in zip(ex[2], ey[2]):
                        diffs.append(ta != tb)
                    r2, m = q(*(pc + [z3.Or(*diffs)]))
                    if r2 == z3.sat:
                        which = [na for (na, ta), (nb, tb) in zip(ex[2], ey[2]) if z3.is_true(m.eval(ta != tb, model_completion=True))]
                        raise Mismatch("state at %s (event %d) differs in %s" % (ex[1], i, which), m, (i, "snapshot", which))
                else:
                    for ta, tb in zip(ex[2], ey[2]):
                        if ta.size() != tb.size():
                            _, m = q(*pc)
                            raise Mismatch("event %d (%s): operand sizes differ" % (i, ex[0]), m, (i, ex[0], "size"))
                    if ex[2]:
                        r2, m = q(*(pc + [z3.Or(*[ta != tb for ta, tb in zip(ex[2], ey[2])])]))
                        if r2 == z3.sat:
                            raise Mismatch("event %d (%s %s) differs in address/value/target" % (i, ex[0], ex[1]), m, (i, ex[0], ex[1]))
            if x.end != "budget" and y.end != "budget" and len(x.events) != len(y.events):
                _, m = q(*pc)
                raise Mismatch("traces have different lengths (%d vs %d events)" % (len(x.events), len(y.events)), m, ("len", len(x.events), len(y.events)))
