"""Concrete reference interpreter for the mini-IR (plain Python integers; no solver, separate from irsmt.py).

Used to replay solver models: both program versions are run from the concrete initial state and their
observable traces are compared. Float/unknown operations are evaluated through a caller-supplied oracle.
"""


def mask(bits):
    return (1 << bits) - 1


def sx(v, bits):
    return v - (1 << bits) if v >> (bits - 1) else v


class Stuck(Exception):
    pass


def size_of(e):
    k = e["k"]
    if k in ("var", "const", "cast", "unknown", "subpiece"):
        return e["size"]
    if k == "binop":
        op = e["op"]
        if op == "Piece":
            return size_of(e["l"]) + size_of(e["r"])
        if op in ("IntEqual", "IntNotEqual", "IntLess", "IntSLess", "IntLessEqual", "IntSLessEqual", "IntCarry", "IntSCarry", "IntSBorrow",
                  "BoolXOr", "BoolOr", "BoolAnd", "FloatEqual", "FloatNotEqual", "FloatLess", "FloatLessEqual"):
            return 1
        return size_of(e["l"])
    if k == "unop":
        return 1 if e["op"] == "FloatNaN" else size_of(e["a"])
    raise Stuck("kind " + k)


def ev(e, env, oracle):
    """Value of expression e (as unsigned int of its width)."""
    k = e["k"]
    if k == "var":
        return env(e["name"], e["size"], bool(e.get("temp", False)))
    if k == "const":
        return int(e["val"], 16) & mask(e["size"] * 8)
    if k == "unknown":
        return oracle("unknown_" + e.get("desc", ""), (), e["size"] * 8)
    if k == "subpiece":
        return (ev(e["a"], env, oracle) >> (8 * e["low"])) & mask(8 * e["size"])
    if k == "unop":
        a = ev(e["a"], env, oracle)
        n = size_of(e["a"]) * 8
        op = e["op"]
        if op == "IntNegate":
            return ~a & mask(n)
        if op == "Int2Comp":
            return -a & mask(n)
        if op == "BoolNegate":
            return 1 if a == 0 else 0
        return oracle(op, ((a, n),), 8 if op == "FloatNaN" else n)
    if k == "cast":
        a = ev(e["a"], env, oracle)
        n, m = size_of(e["a"]) * 8, e["size"] * 8
        op = e["op"]
        if op == "IntZExt":
            return a
        if op == "IntSExt":
            return sx(a, n) & mask(m)
        if op == "PopCount":
            return bin(a).count("1") & mask(m)
        if op == "LzCount":
            return (n - a.bit_length()) & mask(m)
        return oracle(op, ((a, n),), m)
    if k == "binop":
        op = e["op"]
        a, b = ev(e["l"], env, oracle), ev(e["r"], env, oracle)
        n, nb = size_of(e["l"]) * 8, size_of(e["r"]) * 8
        sa, sb = sx(a, n), sx(b, nb)
        if op == "Piece":
            return (a << nb) | b
        if op == "IntEqual":
            return int(a == b)
        if op == "IntNotEqual":
            return int(a != b)
        if op == "IntLess":
            return int(a < b)
        if op == "IntSLess":
            return int(sa < sb)
        if op == "IntLessEqual":
            return int(a <= b)
        if op == "IntSLessEqual":
            return int(sa <= sb)
        if op == "IntAdd":
            return (a + b) & mask(n)
        if op == "IntSub":
            return (a - b) & mask(n)
        if op == "IntCarry":
            return int(a + b > mask(n))
        if op == "IntSCarry":
            return int(not (-(1 << (n - 1)) <= sa + sb < (1 << (n - 1))))
        if op == "IntSBorrow":
            return int(not (-(1 << (n - 1)) <= sa - sb < (1 << (n - 1))))
        if op in ("IntXOr", "BoolXOr"):
            return a ^ b
        if op in ("IntAnd", "BoolAnd"):
            return a & b
        if op in ("IntOr", "BoolOr"):
            return a | b
        if op == "IntLeft":
            return 0 if b >= n else (a << b) & mask(n)
        if op == "IntRight":
            return 0 if b >= n else a >> b
        if op == "IntSRight":
            return (mask(n) if sa < 0 else 0) if b >= n else (sa >> b) & mask(n)
        if op == "IntMult":
            return (a * b) & mask(n)
        if op == "IntDiv":
            return mask(n) if b == 0 else a // b
        if op == "IntRem":
            return a if b == 0 else a % b
        if op == "IntSDiv":
            if b == 0:
                return 1 if sa < 0 else mask(n)
            q = abs(sa) // abs(sb)
            return (q if (sa < 0) == (sb < 0) else -q) & mask(n)
        if op == "IntSRem":
            if b == 0:
                return a
            r = abs(sa) % abs(sb)
            return (r if sa >= 0 else -r) & mask(n)
        return oracle(op, ((a, n), (b, nb)), 8 if op in ("FloatEqual", "FloatNotEqual", "FloatLess", "FloatLessEqual") else n)
    raise Stuck("kind " + k)


def run(project, sub, init_reg, init_mem, havoc, oracle, max_visits=24, choices=(), on_block=None, abort_null=False, pure_extern=None):
    """Run one function concretely. init_reg(name,size,temp)->int, init_mem(addr)->byte,
    havoc(k) -> (reg function, mem function) for the k-th call. Returns the list of observable events."""
    blocks = {b["tid"]: b for b in sub["blocks"]}
    regs, temps, mem = {}, {}, {}
    state = {"reg0": init_reg, "mem0": init_mem}
    le = project.get("little_endian", True)
    trace = []
    choices = list(choices)

    def env(name, size, temp):
        d = temps if temp else regs
        if (name, size) not in d:
            d[(name, size)] = state["reg0"](name, size, temp) & mask(size * 8)
        return d[(name, size)]

    def rd(a):
        a &= mask(64)
        if a not in mem:
            mem[a] = state["mem0"](a) & 0xff
        return mem[a]

    def snapshot(tag):
        vals = tuple((r["name"], env(r["name"], r["size"], False)) for r in sorted(project["regs"], key=lambda r: r["name"]))
        trace.append(("snapshot", tag, vals, ("mem", tuple(sorted(mem.items())), id(state["mem0"]))))

    tid = sub["blocks"][0]["tid"]
    calls = 0
    for _ in range(max_visits):
        blk = blocks.get(tid)
        if blk is None:
            trace.append(("leave", tid))
            snapshot("")
            return trace
        if on_block is not None:
            on_block(tid, env)
        for d in blk["defs"]:
            if abort_null and d["k"] in ("load", "store"):
                a0 = sx(ev(d["address"], env, oracle), 64)
                if -1024 < a0 < 1024:
                    trace.append(("nullpage", a0))
                    return trace
            if d["k"] == "assign":
                v = ev(d["value"], env, oracle)
                (temps if d["var"].get("temp") else regs)[(d["var"]["name"], d["var"]["size"])] = v
            elif d["k"] == "load":
                a = ev(d["address"], env, oracle)
                n = d["var"]["size"]
                trace.append(("load", n, a))
                bs = [rd(a + i) for i in range(n)]
                v = 0
                for i, b in enumerate(bs):
                    v |= b << (8 * i if le else 8 * (n - 1 - i))
                (temps if d["var"].get("temp") else regs)[(d["var"]["name"], n)] = v
            else:
                a = ev(d["address"], env, oracle)
                v = ev(d["value"], env, oracle)
                n = size_of(d["value"])
                trace.append(("store", n, a, v))
                for i in range(n):
                    mem[(a + i) & mask(64)] = (v >> (8 * i if le else 8 * (n - 1 - i))) & 0xff
        jmps = blk["jmps"]
        if not jmps:
            snapshot("deadend")
            return trace
        idx = 0
        if jmps[0]["k"] == "cbranch":
            if ev(jmps[0]["cond"], env, oracle) != 0:
                tid = jmps[0]["target"]
                continue
            idx = 1
            if len(jmps) == 1:
                snapshot("deadend")
                return trace
        j = jmps[idx]
        k = j["k"]
        if k == "branch":
            tid = j["target"]
        elif k == "branchind":
            trace.append(("jmpind", ev(j["target"], env, oracle)))
            ijt = blk.get("ijt", [])
            if not ijt:
                snapshot("jmpind")
                return trace
            tid = choices.pop(0) if choices else ijt[0]
        elif k in ("call", "callind", "callother"):
            if k == "call":
                trace.append(("call", j["target"]))
            elif k == "callind":
                trace.append(("callind", ev(j["target"], env, oracle)))
            else:
                trace.append(("callother", j.get("desc", "")))
            snapshot("call")
            if j.get("ret") is None or k == "callother":
                return trace
            hr, hm = havoc(calls)
            calls += 1
            if pure_extern is not None and k == "call":
                if pure_extern.get("on_call") is not None:
                    pure_extern["on_call"](calls - 1, j, hr)
                # callee modelled as a pure extern function: callee-saved registers and memory survive, the stack pointer
                # is popped by pure_extern["sp_pop"], every other register holds an arbitrary value afterwards
                keep = set(pure_extern["callee_saved"])
                spn = project["sp"]["name"]
                new = {}
                for r in project["regs"]:
                    key = (r["name"], r["size"])
                    if r["name"] == spn:
                        new[key] = (env(r["name"], r["size"], False) + pure_extern["sp_pop"]) & mask(r["size"] * 8)
                    elif r["name"] in keep:
                        new[key] = env(r["name"], r["size"], False)
                    else:
                        new[key] = hr(r["name"], r["size"], False) & mask(r["size"] * 8)
                regs.clear()
                regs.update(new)
                temps.clear()
                tid = j["ret"]
                continue
            regs.clear()
            temps.clear()
            mem.clear()
            state["reg0"], state["mem0"] = hr, hm
            tid = j["ret"]
        elif k == "return":
            trace.append(("return", ev(j["target"], env, oracle)))
            snapshot("return")
            return trace
        else:
            raise Stuck("jump " + k)
    trace.append(("budget",))
    return trace
