"""Generator of basic-normalizable IR functions (mini-IR JSON) for C10/C12/C13.

Two layers: `templates()` enumerates the rewrite-relevant shapes named in the property (deterministic),
`random_project(rng)` fills the rest. Generator constraints (each is a stated narrowing of
"every program the extractor can emit"): only base registers and block-local temporaries; 1-byte registers are
flags and are only assigned boolean-valued expressions; return targets are physical registers; the stack
pointer is only changed by SP +/- const and SP & -2^k (k <= 4) before any other use.
"""
import itertools

R8 = ["RAX", "RBX", "RCX", "RDX", "RSI", "RDI", "RBP", "RSP"]
FLAGS = ["ZF", "CF", "SF", "OF"]
INTERESTING = [0, 1, 2, 0xFFFFFFFFFFFFFFFF, 0x8000000000000000, 0x7FFFFFFFFFFFFFFF, 0xFFFFFFFFFFFFFFF0, 8, 16, 0x10, 0xFF, 3]


def V(name, size=8, temp=False):
    return {"k": "var", "name": name, "size": size, "temp": temp}


def var(name, size=8, temp=False):
    return {"name": name, "size": size, "temp": temp}


def C(val, size=8):
    return {"k": "const", "size": size, "val": "%x" % (val & ((1 << (8 * size)) - 1))}


def B(op, l, r):
    return {"k": "binop", "op": op, "l": l, "r": r}


def U(op, a):
    return {"k": "unop", "op": op, "a": a}


def CAST(op, size, a):
    return {"k": "cast", "op": op, "size": size, "a": a}


def SUBP(low, size, a):
    return {"k": "subpiece", "low": low, "size": size, "a": a}


class Ids:
    def __init__(self):
        self.n = 0

    def tid(self, p):
        self.n += 1
        return "%s_%d" % (p, self.n)


def assign(ids, v, e):
    return {"tid": ids.tid("def"), "k": "assign", "var": v, "value": e}


def load(ids, v, a):
    return {"tid": ids.tid("def"), "k": "load", "var": v, "address": a}


def store(ids, a, e):
    return {"tid": ids.tid("def"), "k": "store", "address": a, "value": e}


def jmp(ids, k, **kw):
    d = {"tid": ids.tid("jmp"), "k": k}
    d.update(kw)
    return d


def blk(tid, defs, jmps, ijt=()):
    return {"tid": tid, "defs": defs, "jmps": jmps, "ijt": list(ijt)}


def project(blocks, extra_subs=()):
    regs = [var(r, 8) for r in R8] + [var(f, 1) for f in FLAGS]
    subs = [{"tid": "sub_f", "name": "f", "cconv": None, "blocks": blocks}]
    subs += list(extra_subs)
    return {
        "subs": subs,
        "externs": [
            {"tid": "ext_malloc", "name": "malloc", "cconv": "__stdcall", "no_return": False, "params": [var("RDI")], "rets": [var("RAX")]},
            {"tid": "ext_exit", "name": "exit", "cconv": "__stdcall", "no_return": True, "params": [var("RDI")], "rets": []},
        ],
        "arch": "x86_64",
        "sp": var("RSP"),
        "regs": regs,
        "cconvs": [{"name": "__stdcall", "params": [var("RDI"), var("RSI"), var("RDX"), var("RCX")], "rets": [var("RAX")], "callee_saved": [var("RBX"), var("RBP")]}],
        "little_endian": True,
        "per_pass": False,
    }


def callee_sub(ids):
    return {"tid": "sub_g", "name": "g", "cconv": None, "blocks": [blk("blk_g0", [assign(ids, var("RAX"), B("IntAdd", V("RDI"), C(1)))], [jmp(ids, "return", target=V("RBX"))])]}


# ------------------------------------------------------------------ expressions

ARITH = ["IntAdd", "IntSub", "IntAnd", "IntOr", "IntXOr", "IntMult", "IntLeft", "IntRight", "IntSRight", "IntDiv", "IntRem", "IntSDiv", "IntSRem"]
CMP = ["IntEqual", "IntNotEqual", "IntLess", "IntSLess", "IntLessEqual", "IntSLessEqual", "IntCarry", "IntSCarry", "IntSBorrow"]
BOOLOPS = ["BoolAnd", "BoolOr", "BoolXOr"]


def rand_expr(rng, size, depth, vars8, flags, temps=()):
    """Random expression of byte size `size` (8, 4 or 1)."""
    pool = [V(n, 8) for n in vars8] if size == 8 else ([V(n, 1) for n in flags] if size == 1 else [])
    pool += [V(t["name"], t["size"], True) for t in temps if t["size"] == size]
    if depth <= 0 or (rng.random() < 0.25 and pool):
        if pool and rng.random() < 0.7:
            return rng.choice(pool)
        if size == 1:
            return C(rng.choice([0, 1]), 1) if not pool or rng.random() < 0.5 else rng.choice(pool)
        return C(rng.choice(INTERESTING), size)
    r = rng.random()
    if size == 1:
        if r < 0.45:
            s2 = rng.choice([8, 8, 4]) if rng.random() < 0.9 else 1
            a = rand_expr(rng, s2, depth - 1, vars8, flags, temps)
            b = a if rng.random() < 0.15 else rand_expr(rng, s2, depth - 1, vars8, flags, temps)
            ops = CMP if s2 != 1 else ["IntEqual", "IntNotEqual"]
            return B(rng.choice(ops), a, b)
        if r < 0.65:
            return U("BoolNegate", rand_expr(rng, 1, depth - 1, vars8, flags, temps))
        if r < 0.9:
            a = rand_expr(rng, 1, depth - 1, vars8, flags, temps)
            b = a if rng.random() < 0.15 else rand_expr(rng, 1, depth - 1, vars8, flags, temps)
            return B(rng.choice(BOOLOPS), a, b)
        return SUBP(rng.choice([0, 1, 7]), 1, rand_expr(rng, 8, depth - 1, vars8, flags, temps)) if rng.random() < 0 else B("IntEqual", rand_expr(rng, 8, depth - 1, vars8, flags, temps), C(rng.choice(INTERESTING)))
    if r < 0.55:
        op = rng.choice(ARITH)
        a = rand_expr(rng, size, depth - 1, vars8, flags, temps)
        hard = op in ("IntMult", "IntDiv", "IntRem", "IntSDiv", "IntSRem")
        if rng.random() < 0.2 and not hard:
            b = a
        elif rng.random() < (0.9 if hard else 0.45):
            b = C(rng.choice(INTERESTING), size)
        else:
            b = rand_expr(rng, size, depth - 1, vars8, flags, temps)
        if rng.random() < 0.2:
            a, b = b, a
        return B(op, a, b)
    if r < 0.65:
        return U(rng.choice(["IntNegate", "Int2Comp"]), rand_expr(rng, size, depth - 1, vars8, flags, temps))
    if r < 0.8:
        if size == 8:
            k = rng.choice(["zext4", "sext4", "zext1", "piece", "popcount", "lzcount"])
            if k == "zext4":
                return CAST("IntZExt", 8, rand_expr(rng, 4, depth - 1, vars8, flags, temps))
            if k == "sext4":
                return CAST("IntSExt", 8, rand_expr(rng, 4, depth - 1, vars8, flags, temps))
            if k == "zext1":
                return CAST("IntZExt", 8, rand_expr(rng, 1, depth - 1, vars8, flags, temps))
            if k == "piece":
                return B("Piece", rand_expr(rng, 4, depth - 1, vars8, flags, temps), rand_expr(rng, 4, depth - 1, vars8, flags, temps))
            return CAST("PopCount" if k == "popcount" else "LzCount", 8, rand_expr(rng, 8, depth - 1, vars8, flags, temps))
        if size == 4:
            return SUBP(rng.choice([0, 4, 2]), 4, rand_expr(rng, 8, depth - 1, vars8, flags, temps))
    if size == 4:
        return SUBP(rng.choice([0, 4]), 4, rand_expr(rng, 8, depth - 1, vars8, flags, temps))
    if r < 0.9:
        return SUBP(0, 8, B("Piece", rand_expr(rng, 8, depth - 1, vars8, flags, temps), rand_expr(rng, 8, depth - 1, vars8, flags, temps))) if rng.random() < 0.3 else B("IntAdd", rand_expr(rng, 8, depth - 1, vars8, flags, temps), C(rng.choice([8, 16, -8, 0x20]), 8))
    if rng.random() < 0.5:
        return B(rng.choice(["FloatAdd", "FloatMult"]), rand_expr(rng, 8, depth - 1, vars8, flags, temps), rand_expr(rng, 8, depth - 1, vars8, flags, temps))
    return {"k": "unknown", "desc": "op%d" % rng.randrange(3), "size": 8}


# ------------------------------------------------------------------ random functions

def rand_defs(rng, ids, n, allow_sp=False):
    defs = []
    temps = []
    regs_w = [r for r in R8 if r != "RSP"]
    for _ in range(n):
        r = rng.random()
        if r < 0.5:
            if rng.random() < 0.25:
                t = var("$U%d" % rng.randrange(3), rng.choice([8, 8, 4, 1]), True)
                e = rand_expr(rng, t["size"], rng.randrange(1, 4), R8, FLAGS, temps)
                defs.append(assign(ids, t, e))
                temps = [x for x in temps if x["name"] != t["name"]] + [t]
            elif rng.random() < 0.3:
                defs.append(assign(ids, var(rng.choice(FLAGS), 1), rand_expr(rng, 1, rng.randrange(1, 4), R8, FLAGS, temps)))
            else:
                defs.append(assign(ids, var(rng.choice(regs_w)), rand_expr(rng, 8, rng.randrange(0, 4), R8, FLAGS, temps)))
        elif r < 0.72:
            addr = rand_expr(rng, 8, rng.randrange(0, 3), R8, FLAGS, temps)
            if rng.random() < 0.2:
                t = var("$U%d" % rng.randrange(3), rng.choice([8, 4]), True)
                defs.append(load(ids, t, addr))
                temps = [x for x in temps if x["name"] != t["name"]] + [t]
            else:
                defs.append(load(ids, var(rng.choice(regs_w)), addr))
        elif r < 0.9:
            addr = rand_expr(rng, 8, rng.randrange(0, 3), R8, FLAGS, temps)
            defs.append(store(ids, addr, rand_expr(rng, rng.choice([8, 8, 4, 1]), rng.randrange(0, 3), R8, FLAGS, temps)))
        else:
            if allow_sp:
                defs.append(assign(ids, var("RSP"), B(rng.choice(["IntSub", "IntAdd"]), V("RSP"), C(rng.choice([8, 16, 0x28, 4]), 8))))
            else:
                defs.append(assign(ids, var(rng.choice(regs_w)), V(rng.choice(R8))))
    return defs


def rand_cond(rng):
    r = rng.random()
    if r < 0.4:
        return V(rng.choice(FLAGS), 1)
    if r < 0.5:
        return U("BoolNegate", V(rng.choice(FLAGS), 1))
    return rand_expr(rng, 1, 2, R8, FLAGS)


def random_project(rng):
    ids = Ids()
    n = rng.randrange(2, 8)
    tids = ["blk_%d" % i for i in range(n)]
    shared_cond = rand_cond(rng)
    blocks = []
    for i, t in enumerate(tids):
        empty = rng.random() < 0.25 and i > 0
        defs = [] if empty else rand_defs(rng, ids, rng.randrange(0, 6), allow_sp=(i == 0))
        if i == 0 and rng.random() < 0.3:
            pre = [assign(ids, var("RSP"), B("IntSub", V("RSP"), C(rng.choice([8, 16, 0x18]), 8)))]
            if rng.random() < 0.25:
                # variable-size allocation before the alignment (alloca): the pass must give up on the function
                pre.append(assign(ids, var("RSP"), B("IntSub", V("RSP"), V(rng.choice(["RAX", "RCX"])))))
                pre.append(assign(ids, var("RBX"), B("IntAdd", V("RBX"), C(1))))
            defs = pre + [assign(ids, var("RSP"), B("IntAnd", V("RSP"), C(rng.choice([0xFFFFFFFFFFFFFFF0, 0xFFFFFFFFFFFFFFF8]), 8)))] + defs

        def fwd():
            if i + 1 < n and rng.random() < 0.9:
                return rng.choice(tids[i + 1:])
            return rng.choice(tids)

        r = rng.random()
        ijt_here = []
        if i == n - 1 or r < 0.12:
            k = rng.random()
            if k < 0.7:
                jm = [jmp(ids, "return", target=V(rng.choice(["RCX", "RBX", "RSI"])))]
            elif k < 0.8:
                jm = [jmp(ids, "call", target="ext_exit", ret=None)]
            elif k < 0.9:
                jm = [jmp(ids, "branchind", target=rand_expr(rng, 8, 1, R8, FLAGS))]
            else:
                jm = []
            ijt_here = []
        elif r < 0.5:
            c = shared_cond if rng.random() < 0.6 else rand_cond(rng)
            if rng.random() < 0.2:
                c = U("BoolNegate", c)
            jm = [jmp(ids, "cbranch", target=fwd(), cond=c), jmp(ids, "branch", target=fwd())]
        elif r < 0.72:
            jm = [jmp(ids, "branch", target=fwd())]
        elif r < 0.78:
            # indirect jump with target hints (switch tables): the CFG gets one edge per hint
            jm = [jmp(ids, "branchind", target=rand_expr(rng, 8, 1, R8, FLAGS))]
            ijt_here = sorted(set(fwd() for _ in range(rng.randrange(1, 3))))
        else:
            k = rng.random()
            ret = fwd()
            if k < 0.4:
                jm = [jmp(ids, "call", target="ext_malloc", ret=ret)]
            elif k < 0.6:
                jm = [jmp(ids, "call", target="sub_g", ret=ret)]
            elif k < 0.7:
                jm = [jmp(ids, "callind", target=rand_expr(rng, 8, 1, R8, FLAGS), ret=ret)]
            elif k < 0.8:
                # indirect call through a temporary computed in this block (as lifted code does), whose inputs are overwritten before the call
                src = rng.choice(["RBX", "RCX", "RDX"])
                defs = defs + [assign(ids, var("$U7", 8, True), B("IntAdd", V(src), C(8))), assign(ids, var(src), C(0x1000))]
                jm = [jmp(ids, "callind", target=V("$U7", 8, True), ret=ret)]
            else:
                jm = [jmp(ids, "callother", desc="syscall", ret=ret)]
        blocks.append(blk(t, defs, jm, ijt_here))
    return project(blocks, [random_callee(rng, ids) if rng.random() < 0.6 else callee_sub(ids)])


def random_callee(rng, ids):
    """Callee with a random body of 1..3 blocks (validated like the main function)."""
    n = rng.randrange(1, 4)
    tids = ["blk_g%d" % i for i in range(n)]
    blocks = []
    for i, t in enumerate(tids):
        defs = rand_defs(rng, ids, rng.randrange(0, 5), allow_sp=False)
        if i == n - 1:
            jm = [jmp(ids, "return", target=V(rng.choice(["RCX", "RBX", "RSI"])))]
        elif rng.random() < 0.6:
            jm = [jmp(ids, "cbranch", target=rng.choice(tids[i + 1:]), cond=rand_cond(rng)), jmp(ids, "branch", target=tids[i + 1])]
        else:
            jm = [jmp(ids, "branch", target=tids[i + 1])]
        blocks.append(blk(t, defs, jm))
    return {"tid": "sub_g", "name": "g", "cconv": None, "blocks": blocks}


# ------------------------------------------------------------------ deterministic templates

def expr_templates():
    """Rewrite-relevant expression shapes: every binary operator x {x op x, x op c, c op x, (x-y) cmp c, nested negations}."""
    x, y = V("RBX"), V("RCX")
    out = []
    consts = [0, 1, 2, 0xFFFFFFFFFFFFFFFF, 0x8000000000000000, 0x7FFFFFFFFFFFFFFF, 0xFFFFFFFFFFFFFFF0, 0xFF]
    for op in ARITH:
        out.append(B(op, x, x))
        for c in consts:
            out.append(B(op, x, C(c)))
            out.append(B(op, C(c), x))
        out.append(B(op, B(op, x, C(3)), C(5)))
        out.append(B(op, x, U("Int2Comp", y)))
        out.append(B(op, U("IntNegate", x), U("IntNegate", y)))
    for op in CMP:
        out.append(CAST("IntZExt", 8, B(op, x, x)))
        for c in consts[:5]:
            out.append(CAST("IntZExt", 8, B(op, x, C(c))))
            out.append(CAST("IntZExt", 8, B(op, C(c), x)))
            out.append(CAST("IntZExt", 8, B(op, B("IntSub", x, y), C(c))))
            out.append(CAST("IntZExt", 8, B(op, C(c), B("IntSub", x, y))))
            out.append(CAST("IntZExt", 8, U("BoolNegate", B(op, B("IntSub", x, y), C(c)))))
        out.append(CAST("IntZExt", 8, U("BoolNegate", B(op, x, y))))
        out.append(CAST("IntZExt", 8, U("BoolNegate", U("BoolNegate", B(op, x, y)))))
        for op2 in ("BoolAnd", "BoolOr", "BoolXOr"):
            for opb in ("IntEqual", "IntNotEqual", "IntLess", "IntSLess"):
                out.append(CAST("IntZExt", 8, B(op2, B(op, x, y), B(opb, x, y))))
                out.append(CAST("IntZExt", 8, B(op2, B(op, x, y), B(opb, y, x))))
                out.append(CAST("IntZExt", 8, B(op2, B(op, x, y), U("BoolNegate", B(opb, x, y)))))
    for f in ("ZF", "CF"):
        for op2 in ("BoolAnd", "BoolOr", "BoolXOr"):
            out.append(CAST("IntZExt", 8, B(op2, V(f, 1), V(f, 1))))
            out.append(CAST("IntZExt", 8, B(op2, V(f, 1), C(0, 1))))
            out.append(CAST("IntZExt", 8, B(op2, V(f, 1), C(1, 1))))
            out.append(CAST("IntZExt", 8, B(op2, C(1, 1), V(f, 1))))
            out.append(CAST("IntZExt", 8, B(op2, V(f, 1), U("BoolNegate", V(f, 1)))))
    # piece / subpiece / extension interplay
    for low, size in ((0, 4), (4, 4), (0, 8), (2, 2), (0, 1), (7, 1), (3, 4)):
        inner = [B("Piece", SUBP(4, 4, x), SUBP(0, 4, y)), CAST("IntZExt", 8, SUBP(0, 4, x)), CAST("IntSExt", 8, SUBP(0, 4, x)),
                 B("Piece", SUBP(4, 4, x), SUBP(0, 4, x)), CAST("IntZExt", 8, SUBP(0, 1, x)), x]
        for inn in inner:
            e = SUBP(low, size, inn)
            out.append(e if size == 8 else CAST("IntZExt", 8, e))
    out.append(B("Piece", SUBP(4, 4, x), SUBP(0, 4, x)))
    out.append(B("Piece", SUBP(0, 4, x), SUBP(4, 4, x)))
    out.append(CAST("IntZExt", 8, CAST("IntZExt", 4, SUBP(0, 2, x))))
    out.append(CAST("IntSExt", 8, CAST("IntZExt", 4, SUBP(0, 2, x))))
    out.append(CAST("IntSExt", 8, CAST("IntSExt", 4, SUBP(0, 2, x))))
    return out


def templates():
    """Deterministic programs for the block/CFG-level shapes named in the property."""
    progs = []
    for e in expr_templates():
        ids = Ids()
        progs.append(("expr", project([blk("blk_0", [assign(ids, var("RAX"), e)], [jmp(ids, "return", target=V("RSI"))])], [callee_sub(ids)])))
    cmps = [("IntEqual", 0), ("IntNotEqual", 0), ("IntEqual", 1), ("IntSLess", 0), ("IntLess", 1)]
    # conditional chains with one shared condition, with/without re-definition of the condition's inputs in between
    for (op, c), redef, negate2 in itertools.product(cmps, ["none", "assign", "load", "flag_assign", "store"], [False, True]):
        ids = Ids()
        use_flag = redef == "flag_assign"
        cond = V("ZF", 1) if use_flag else B(op, V("RAX"), C(c))
        cond2 = U("BoolNegate", cond) if negate2 else cond
        mid = {"none": [assign(ids, var("RBX"), B("IntAdd", V("RBX"), C(1)))],
               "assign": [assign(ids, var("RAX"), B("IntAdd", V("RAX"), C(1)))],
               "load": [load(ids, var("RAX"), V("RDI"))],
               "flag_assign": [assign(ids, var("ZF", 1), B("IntEqual", V("RBX"), C(0)))],
               "store": [store(ids, V("RDI"), V("RAX"))]}[redef]
        blocks = [
            blk("blk_0", [assign(ids, var("RCX"), C(7))], [jmp(ids, "cbranch", target="blk_1", cond=cond), jmp(ids, "branch", target="blk_2")]),
            blk("blk_1", mid, [jmp(ids, "branch", target="blk_2")]),
            blk("blk_2", [], [jmp(ids, "cbranch", target="blk_3", cond=cond2), jmp(ids, "branch", target="blk_4")]),
            blk("blk_3", [store(ids, V("RSI"), V("RBX"))], [jmp(ids, "branch", target="blk_4")]),
            blk("blk_4", [assign(ids, var("RDX"), V("RCX"))], [jmp(ids, "return", target=V("RSI"))]),
        ]
        progs.append(("cond_chain", project(blocks, [callee_sub(ids)])))
    # propagation across blocks with a load / assign overwriting the propagated variable
    for kill in ["load_self", "load_other", "assign", "none", "store", "load_self_addr"]:
        for join in [False, True]:
            ids = Ids()
            b0 = [assign(ids, var("RAX"), B("IntAdd", V("RBX"), C(8)))]
            if kill == "load_self":
                b1 = [load(ids, var("RAX"), V("RDI"))]
            elif kill == "load_self_addr":
                b1 = [load(ids, var("RAX"), B("IntAdd", V("RAX"), C(16)))]
            elif kill == "load_other":
                b1 = [load(ids, var("RBX"), V("RDI"))]
            elif kill == "assign":
                b1 = [assign(ids, var("RBX"), C(0))]
            elif kill == "store":
                b1 = [store(ids, V("RAX"), V("RBX"))]
            else:
                b1 = []
            blocks = [blk("blk_0", b0, [jmp(ids, "cbranch", target="blk_1", cond=V("ZF", 1)), jmp(ids, "branch", target="blk_2" if join else "blk_1")]),
                      blk("blk_1", b1, [jmp(ids, "branch", target="blk_2")]),
                      blk("blk_2", [store(ids, V("RSI"), V("RAX")), assign(ids, var("RCX"), B("IntSub", V("RAX"), V("RBX")))], [jmp(ids, "return", target=V("RSI"))])]
            progs.append(("propagation", project(blocks, [callee_sub(ids)])))
    # re-definitions inside one block
    for variant in range(6):
        ids = Ids()
        t = var("$U1", 8, True)
        seqs = [
            [assign(ids, t, B("IntAdd", V("RBX"), C(4))), assign(ids, var("RAX"), V("$U1", 8, True)), assign(ids, var("RBX"), C(0)), store(ids, V("RSI"), V("RAX"))],
            [assign(ids, var("RAX"), V("RBX")), assign(ids, var("RAX"), B("IntAdd", V("RAX"), C(1))), assign(ids, var("RAX"), B("IntAdd", V("RAX"), V("RAX")))],
            [assign(ids, var("RAX"), B("IntAdd", V("RAX"), C(8))), load(ids, var("RAX"), V("RAX")), store(ids, V("RSI"), V("RAX"))],
            [assign(ids, var("RAX"), V("RBX")), load(ids, var("RBX"), V("RDI")), store(ids, V("RSI"), V("RAX"))],
            [assign(ids, var("ZF", 1), B("IntEqual", V("RAX"), C(0))), assign(ids, var("RAX"), C(5)), assign(ids, var("RCX"), CAST("IntZExt", 8, V("ZF", 1)))],
            [assign(ids, var("RAX"), C(1)), assign(ids, var("RBX"), V("RAX")), assign(ids, var("RAX"), C(2)), assign(ids, var("RCX"), V("RBX"))],
        ]
        progs.append(("redef", project([blk("blk_0", seqs[variant], [jmp(ids, "return", target=V("RSI"))])], [callee_sub(ids)])))
    # stack pointer masking
    for sub_c, mask_c, extra in itertools.product([0, 8, 16, 0x28], [0xFFFFFFFFFFFFFFF0, 0xFFFFFFFFFFFFFFF8, 0xFFFFFFFFFFFFFFFC], ["none", "empty_first", "commuted"]):
        ids = Ids()
        defs = []
        if sub_c:
            defs.append(assign(ids, var("RSP"), B("IntSub", V("RSP"), C(sub_c))))
            defs.append(assign(ids, var("RCX"), C(2)))  # keeps the two SP assignments from being merged into one expression
        m = B("IntAnd", C(mask_c), V("RSP")) if extra == "commuted" else B("IntAnd", V("RSP"), C(mask_c))
        defs.append(assign(ids, var("RSP"), m))
        defs.append(store(ids, V("RSP"), V("RAX")))
        blocks = [blk("blk_1", defs, [jmp(ids, "return", target=V("RSI"))])]
        if extra == "empty_first":
            blocks = [blk("blk_0", [], [jmp(ids, "branch", target="blk_1")])] + blocks
        progs.append(("sp_mask", project(blocks, [callee_sub(ids)])))
    # join block reached over a conditional AND an unconditional edge, followed by an empty block testing the same condition again
    for cond, touch in itertools.product([V("ZF", 1), B("IntEqual", V("RAX"), C(0)), U("BoolNegate", V("CF", 1))], ["other", "input"]):
        ids = Ids()
        tdefs = [assign(ids, var("RCX"), B("IntAdd", V("RCX"), C(2)))] if touch == "other" else [assign(ids, var("RAX"), B("IntAdd", V("RAX"), C(2))), assign(ids, var("ZF", 1), B("IntEqual", V("RCX"), C(0))), assign(ids, var("CF", 1), V("ZF", 1))]
        blocks = [blk("blk_a", [assign(ids, var("RSI"), C(0x40))], [jmp(ids, "cbranch", target="blk_t", cond=cond), jmp(ids, "branch", target="blk_f")]),
                  blk("blk_f", [assign(ids, var("RBX"), B("IntAdd", V("RBX"), C(1)))], [jmp(ids, "branch", target="blk_t")]),
                  blk("blk_t", tdefs, [jmp(ids, "branch", target="blk_e")]),
                  blk("blk_e", [], [jmp(ids, "cbranch", target="blk_x", cond=cond), jmp(ids, "branch", target="blk_y")]),
                  blk("blk_x", [assign(ids, var("RDX"), C(1))], [jmp(ids, "return", target=V("RSI"))]),
                  blk("blk_y", [assign(ids, var("RDX"), C(2))], [jmp(ids, "return", target=V("RSI"))])]
        progs.append(("join_chain", project(blocks, [callee_sub(ids)])))
    # stack pointer: two alignment masks in one block (the offset journal must account for the first substitution)
    for c1, c2, m1, m2 in [(8, 8, 0xFFFFFFFFFFFFFFF0, 0xFFFFFFFFFFFFFFF0), (8, 0, 0xFFFFFFFFFFFFFFF0, 0xFFFFFFFFFFFFFFF0), (0x18, 4, 0xFFFFFFFFFFFFFFF0, 0xFFFFFFFFFFFFFFF8), (4, 8, 0xFFFFFFFFFFFFFFF8, 0xFFFFFFFFFFFFFFF0)]:
        ids = Ids()
        defs = [assign(ids, var("RSP"), B("IntSub", V("RSP"), C(c1))), assign(ids, var("RCX"), C(2)), assign(ids, var("RSP"), B("IntAnd", V("RSP"), C(m1))), store(ids, V("RSP"), V("RAX"))]
        if c2:
            defs.append(assign(ids, var("RSP"), B("IntSub", V("RSP"), C(c2))))
        defs += [assign(ids, var("RBX"), C(1)), assign(ids, var("RSP"), B("IntAnd", V("RSP"), C(m2))), store(ids, V("RSP"), V("RDI"))]
        progs.append(("sp_double_mask", project([blk("blk_0", defs, [jmp(ids, "return", target=V("RSI"))])], [callee_sub(ids)])))
    # stack pointer: variable-size allocation before the alignment mask
    for reg, mask_c in itertools.product(["RAX", "RCX"], [0xFFFFFFFFFFFFFFF0, 0xFFFFFFFFFFFFFFF8]):
        ids = Ids()
        defs = [assign(ids, var("RSP"), B("IntSub", V("RSP"), V(reg))), assign(ids, var("RBX"), B("IntAdd", V("RBX"), C(1))),
                assign(ids, var("RSP"), B("IntAnd", V("RSP"), C(mask_c))), store(ids, V("RSP"), V("RDI"))]
        progs.append(("sp_alloca", project([blk("blk_0", defs, [jmp(ids, "return", target=V("RSI"))])], [callee_sub(ids)])))
    # indirect calls / jumps / returns through temporaries whose inputs are overwritten before the jump
    for kind in ["callind", "callind_load", "branchind"]:
        ids = Ids()
        t = var("$U1", 8, True)
        if kind == "callind_load":
            defs = [load(ids, t, V("RDI")), assign(ids, t, B("IntAdd", V("$U1", 8, True), C(8)))]
        else:
            defs = [assign(ids, t, B("IntAdd", V("RBX"), C(8))), assign(ids, var("RBX"), C(0x1000))]
        j = jmp(ids, "branchind", target=V("$U1", 8, True)) if kind == "branchind" else jmp(ids, "callind", target=V("$U1", 8, True), ret="blk_1")
        blocks = [blk("blk_0", defs, [j]), blk("blk_1", [assign(ids, var("RCX"), V("RAX"))], [jmp(ids, "return", target=V("RSI"))])]
        progs.append(("temp_target", project(blocks, [callee_sub(ids)])))
    # calls: values must not be propagated across calls, registers stay alive at calls
    for kind in ["extern", "internal", "indirect", "other", "noreturn"]:
        ids = Ids()
        j = {"extern": jmp(ids, "call", target="ext_malloc", ret="blk_1"), "internal": jmp(ids, "call", target="sub_g", ret="blk_1"),
             "indirect": jmp(ids, "callind", target=V("RAX"), ret="blk_1"), "other": jmp(ids, "callother", desc="syscall", ret="blk_1"),
             "noreturn": jmp(ids, "call", target="ext_exit", ret="blk_1")}[kind]
        blocks = [blk("blk_0", [assign(ids, var("RAX"), B("IntAdd", V("RBX"), C(8))), assign(ids, var("RDX"), C(3))], [j]),
                  blk("blk_1", [store(ids, V("RSI"), V("RAX")), assign(ids, var("RCX"), V("RDX"))], [jmp(ids, "return", target=V("RSI"))])]
        progs.append(("call", project(blocks, [callee_sub(ids)])))
    return progs


# ------------------------------------------------------------------ functions for the pointer-inference validation (C13)

PI_REGS = ["RAX", "RBX", "RCX", "RDX", "RSI", "RDI"]


def heap_loop_project(rng):
    """Directed shape: the same malloc call site is executed twice, the first object is remembered in a stack slot, both
    objects get different values at the same offset, then the first object is read again (objects allocated in a loop share
    one abstract identifier, so writes to them must be weak updates)."""
    ids = Ids()
    off = rng.choice([0, 8, 8, 16])
    slot = rng.choice([16, 24, 32])
    k1, k2 = rng.sample([0, 1, 3, 7, 0x10, 0xFF, 0x5000], 2)
    cell = lambda base: V(base) if off == 0 else B("IntAdd", V(base), C(off))  # noqa: E731
    sl = B("IntAdd", V("RSP"), C(slot))
    push = [assign(ids, var("RSP"), B("IntSub", V("RSP"), C(8))), store(ids, V("RSP"), C(0x401000))] if rng.random() < 0.8 else []
    b0 = blk("blk_0", [assign(ids, var("RSP"), B("IntSub", V("RSP"), C(0x40))), assign(ids, var("RBP"), C(0))], [jmp(ids, "branch", target="blk_1")])
    b1 = blk("blk_1", push + [], [jmp(ids, "call", target="ext_malloc", ret="blk_2")])
    b2 = blk("blk_2", [assign(ids, var("RBX"), V("RAX"))], [jmp(ids, "cbranch", target="blk_4", cond=B("IntNotEqual", V("RBP"), C(0))), jmp(ids, "branch", target="blk_3")])
    b3 = blk("blk_3", [store(ids, cell("RBX"), C(k1)), store(ids, sl, V("RBX")), assign(ids, var("RBP"), C(1))], [jmp(ids, "branch", target="blk_1")])
    first = rng.choice(["RCX", "RSI", "RDI"])
    b4defs = [store(ids, cell("RBX"), C(k2)), load(ids, var(first), sl), load(ids, var("RDX"), cell(first))]
    if rng.random() < 0.5:
        b4defs = [load(ids, var(first), sl), store(ids, cell("RBX"), C(k2)), load(ids, var("RDX"), cell(first))]
    b4 = blk("blk_4", b4defs, [jmp(ids, "branch", target="blk_5")])
    b5 = blk("blk_5", [assign(ids, var("RSP"), B("IntAdd", V("RSP"), C(0x40)))], [jmp(ids, "return", target=V("RDX"))])
    p = project([b0, b1, b2, b3, b4, b5], [])
    p["externs"] = [e for e in p["externs"] if e["name"] == "malloc"]
    p["ptr_regs"] = []
    p["scope"] = "extended"
    return p


def random_pi_project(rng):
    """Single function: register arithmetic, comparisons, stack loads/stores at constant offsets, branches, loops."""
    if rng.random() < 0.01:
        return heap_loop_project(rng)  # (values read back from re-allocated objects carry the top flag: exercises the weak-update paths, rarely constrains)
    ids = Ids()
    n = rng.randrange(2, 7)
    tids = ["blk_%d" % i for i in range(n)]
    frame = rng.choice([0, 0x10, 0x20, 0x28])
    use_rbp = rng.random() < 0.4
    # pointer parameters: registers that are never overwritten and are dereferenced at small constant offsets
    # (checked under the analysis' assumption that parameter objects alias neither each other nor the stack frame)
    ptr_regs = rng.choice([[], [], ["RDI"], ["RDI", "RSI"], ["RSI"]])
    with_calls = rng.random() < 0.35
    reg_loads = rng.random() < 0.3
    # heap mode: blk_0 ends with a malloc call, blk_1 (entered only from there) saves the pointer in the callee-saved RBX,
    # which is never written otherwise; all later blocks may access the object through RBX at small constant offsets
    heap_mode = with_calls and n >= 3 and rng.random() < 0.55
    if with_calls:
        # a call clobbers the parameter registers; a store through such a register afterwards is a store through an unknown
        # pointer, which the analysis (by design) assumes not to alias tracked memory
        ptr_regs = []
    dst_regs = [r for r in PI_REGS if r not in ptr_regs and not (heap_mode and r == "RBX")]
    small = lambda: C(rng.choice([0, 1, 2, 3, 4, 5, 7, 8, 10, 16, 100, 0xFF, 0x300, 0x500, 0x5000, 0xFFFFFFFFFFFFFFFF, 0xFFFFFFFFFFFFFFF8, 0x7FFFFFFFFFFFFFFF, 0x8000000000000000, rng.randrange(0, 64)]))  # noqa: E731

    def stack_addr():
        base = "RBP" if (use_rbp and rng.random() < 0.5) else "RSP"
        off = rng.choice([0, 8, 16, 24, -8, -16, 0x30])
        if off == 0:
            return V(base)
        return B("IntAdd" if off > 0 else "IntSub", V(base), C(abs(off)))

    def param_addr():
        off = rng.choice([0, 8, 8, 16, 4, -8, 0x18])
        p = V(rng.choice(ptr_regs))
        return p if off == 0 else B("IntAdd" if off > 0 else "IntSub", p, C(abs(off)))

    def heap_addr():
        off = rng.choice([0, 8, 8, 16, 24, 4])
        return V("RBX") if off == 0 else B("IntAdd", V("RBX"), C(off))

    def heap_def():
        q = rng.random()
        dst = var(rng.choice(dst_regs))
        if q < 0.45:
            return load(ids, dst, heap_addr())
        if q < 0.8:
            return store(ids, heap_addr(), rng.choice([V(rng.choice(PI_REGS)), small(), stack_addr(), heap_addr()]))
        if q < 0.9:
            size = rng.choice([4, 2, 1])
            return store(ids, heap_addr(), rng.choice([SUBP(0, size, V(rng.choice(PI_REGS))), C(0x33333333 & ((1 << (8 * size)) - 1), size)]))
        return assign(ids, dst, heap_addr())

    def rand_def():
        r = rng.random()
        dst = var(rng.choice(dst_regs))
        if ptr_regs and rng.random() < 0.3:
            q = rng.random()
            if q < 0.5:
                return load(ids, dst, param_addr())
            if q < 0.8:
                return store(ids, param_addr(), rng.choice([V(rng.choice(PI_REGS)), small(), stack_addr()]))
            if q < 0.9:
                size = rng.choice([4, 2, 1])
                return store(ids, param_addr(), rng.choice([SUBP(0, size, V(rng.choice(PI_REGS))), C(0x33333333 & ((1 << (8 * size)) - 1), size)]))
            # copy of a derived pointer into a data register (the copy is never dereferenced)
            return assign(ids, dst, param_addr())
        if r < 0.18:
            return assign(ids, dst, small())
        if r < 0.23 and reg_loads:
            # load through an arbitrary register (+ constant): loads cannot clobber tracked memory, whatever the register holds
            a = V(rng.choice(PI_REGS))
            return load(ids, dst, a if rng.random() < 0.5 else B("IntAdd", a, C(rng.choice([8, 16, 0x100, 0x400]))))
        if r < 0.42:
            return assign(ids, dst, B(rng.choice(["IntAdd", "IntSub", "IntAdd", "IntMult", "IntAnd", "IntOr", "IntXOr", "IntLeft", "IntRight"]), V(rng.choice(PI_REGS)), small()))
        if r < 0.52:
            return assign(ids, dst, B(rng.choice(["IntAdd", "IntSub", "IntMult"]), V(rng.choice(PI_REGS)), V(rng.choice(PI_REGS))))
        if r < 0.58:
            return assign(ids, dst, rng.choice([U("Int2Comp", V(rng.choice(PI_REGS))), U("IntNegate", V(rng.choice(PI_REGS))), V(rng.choice(PI_REGS)),
                                               CAST("IntZExt", 8, SUBP(0, 4, V(rng.choice(PI_REGS)))), CAST("IntSExt", 8, SUBP(0, 4, V(rng.choice(PI_REGS)))),
                                               CAST("IntZExt", 8, SUBP(0, 1, V(rng.choice(PI_REGS))))]))
        if r < 0.7:
            return assign(ids, var(rng.choice(["ZF", "CF", "SF"]), 1), cmp_expr())
        if r < 0.76:
            return store(ids, stack_addr(), rng.choice([V(rng.choice(PI_REGS)), small()]))
        if r < 0.83:
            # narrower store into (possibly the upper half of) an 8-byte stack cell
            a = stack_addr()
            if rng.random() < 0.6:
                a = B("IntAdd", a, C(rng.choice([4, 4, 2, 1])))
            size = rng.choice([4, 4, 2, 1])
            val = rng.choice([SUBP(0, size, V(rng.choice(PI_REGS))), C(rng.choice([0x33333333, 0, 0xFF, 0x80000000]), size)])
            return store(ids, a, val)
        if r < 0.96:
            return load(ids, dst, stack_addr())
        # access through an absolute address around the NULL page boundary (the analysis treats (-1024, 1024) as NULL dereferences)
        a = C(rng.choice([-1024, -1023, -1025, 1023, 1024, 0, 8, 2048, -2048]))
        # (only constant addresses: an access through a parameter pointer may alias the function's own stack frame,
        #  which the analysis excludes by assumption)
        return load(ids, dst, a) if rng.random() < 0.6 else store(ids, a, V(rng.choice(PI_REGS)))

    def cmp_expr():
        op = rng.choice(["IntEqual", "IntNotEqual", "IntLess", "IntSLess", "IntLessEqual", "IntSLessEqual"])
        a, b = V(rng.choice(PI_REGS)), small()
        if rng.random() < 0.15:
            # comparison of a truncated (and possibly re-extended) register, as compilers emit for 32-bit/8-bit tests
            sz = rng.choice([4, 4, 2, 1])
            a = SUBP(0, sz, a)
            if rng.random() < 0.3:
                a = CAST(rng.choice(["IntZExt", "IntSExt"]), 8, a)
            else:
                b = C(rng.choice([0, 0, 1, 5, 0xFF, (1 << (8 * sz)) - 1, 1 << (8 * sz - 1)]) & ((1 << (8 * sz)) - 1), sz)
            if rng.random() < 0.3:
                a, b = b, a
            e = B(op, a, b)
            return U("BoolNegate", e) if rng.random() < 0.15 else e
        if rng.random() < 0.3:
            a, b = b, a
        if rng.random() < 0.15:
            b = V(rng.choice(PI_REGS))
        e = B(op, a, b)
        return U("BoolNegate", e) if rng.random() < 0.15 else e

    def cell_fragment():
        """wide store, narrower store inside the same cell, wide load of the cell (straight line)"""
        a = stack_addr()
        off = rng.choice([4, 4, 2, 1, 0, 6])
        size = rng.choice([s for s in (4, 2, 1) if off + s <= 8])
        inner = a if off == 0 else B("IntAdd", a, C(off))
        wide = rng.choice([V(rng.choice(PI_REGS)), C(0x1111111122222222)])
        narrow = rng.choice([SUBP(0, size, V(rng.choice(PI_REGS))), C(0x33333333, size)])
        return [store(ids, a, wide), store(ids, inner, narrow), load(ids, var(rng.choice(dst_regs)), a)]

    blocks = []
    join_fragment = rng.random() < 0.2 and n >= 4 and not heap_mode
    for i, t in enumerate(tids):
        defs = []
        if i == 0:
            if frame:
                defs.append(assign(ids, var("RSP"), B("IntSub", V("RSP"), C(frame))))
            if use_rbp:
                defs.append(assign(ids, var("RBP"), V("RSP")))
            # typical loop counter initialisation
            if rng.random() < 0.7:
                defs.append(assign(ids, var(rng.choice(dst_regs)), C(rng.choice([0, 1, 10]))))
        if heap_mode and i == 1:
            defs.append(assign(ids, var("RBX"), V("RAX")))
        defs += [(heap_def() if (heap_mode and i >= 1 and rng.random() < 0.35) else rand_def()) for _ in range(rng.randrange(0, 5))]
        if rng.random() < 0.12:
            defs += cell_fragment()
        if join_fragment and i in (1, 2):
            # one branch sets RBX to a constant, the other to an unknown value; after the join it is added to a pointer-like parameter
            if i == 1:
                defs.append(assign(ids, var("RBX"), C(rng.choice([8, 16, 0]))))
            else:
                defs.append(rng.choice([assign(ids, var("RBX"), B("IntMult", V("RCX"), V("RDX"))), load(ids, var("RBX"), C(0x5000)), assign(ids, var("RBX"), B("IntAnd", V("RAX"), V("RCX")))]))
        if join_fragment and i == 3:
            defs.insert(0, rng.choice([assign(ids, var("RAX"), B("IntAdd", V("RDI"), V("RBX"))), assign(ids, var("RAX"), B("IntAdd", V("RBX"), V("RDI"))), assign(ids, var("RAX"), B("IntSub", V("RDI"), V("RBX")))]))
        if i == n - 1:
            if frame:
                defs.append(assign(ids, var("RSP"), B("IntAdd", V("RSP"), C(frame))))
            jm = [jmp(ids, "return", target=V("RDX"))]
        else:
            r = rng.random()
            fwd = rng.choice(tids[i + 1:])
            anyt = rng.choice(tids[max(0, i - 2):]) if rng.random() < 0.45 else fwd
            if heap_mode and anyt == "blk_1":
                anyt = "blk_0"  # blk_1 is entered from the malloc call only
            if heap_mode and i == 0:
                if rng.random() < 0.8:
                    defs.append(assign(ids, var("RSP"), B("IntSub", V("RSP"), C(8))))
                    defs.append(store(ids, V("RSP"), C(0x401000)))
                jm = [jmp(ids, "call", target="ext_malloc", ret="blk_1")]
            elif join_fragment and i == 0:
                jm = [jmp(ids, "cbranch", target="blk_1", cond=cmp_expr()), jmp(ids, "branch", target="blk_2")]
            elif join_fragment and i in (1, 2):
                jm = [jmp(ids, "branch", target="blk_3")]
            elif with_calls and r < 0.2:
                # call of an extern function; usually preceded by the push of the return address as lifted x86 code does it
                if rng.random() < 0.8:
                    defs.append(assign(ids, var("RSP"), B("IntSub", V("RSP"), C(8))))
                    defs.append(store(ids, V("RSP"), C(0x401000 + 16 * i)))
                if rng.random() < 0.5:
                    defs.insert(len(defs) - 2 if len(defs) >= 2 else 0, assign(ids, var("RDI"), rng.choice([small(), stack_addr(), V(rng.choice(PI_REGS))])))
                jm = [jmp(ids, "call", target=rng.choice(["ext_malloc", "ext_f"]), ret=tids[i + 1])]
            elif r < 0.65:
                cond = V(rng.choice(["ZF", "CF", "SF"]), 1) if (rng.random() < 0.4 and any(d["k"] == "assign" and d["var"]["size"] == 1 for d in defs)) else cmp_expr()
                if cond["k"] == "var":
                    # make sure the flag is defined in this block (as lifted code does)
                    fl = [d for d in defs if d["k"] == "assign" and d["var"]["size"] == 1]
                    cond = V(fl[-1]["var"]["name"], 1)
                jm = [jmp(ids, "cbranch", target=anyt, cond=cond), jmp(ids, "branch", target=fwd)]
            else:
                jm = [jmp(ids, "branch", target=fwd)]
        blocks.append(blk(t, defs, jm))
    p = project(blocks, [])
    p["externs"] = [e for e in p["externs"] if e["name"] == "malloc"] + [
        {"tid": "ext_f", "name": "f_extern", "cconv": "__stdcall", "no_return": False, "params": [var("RDI"), var("RSI")], "rets": [var("RAX")]}] if with_calls else []
    p["ptr_regs"] = ptr_regs
    # "stated": the program class the property text quantifies over (registers, stack memory at constant offsets, constant
    # absolute addresses); "extended": additionally pointer parameters, extern calls, heap objects or register-addressed loads
    p["scope"] = "extended" if (with_calls or ptr_regs or reg_loads) else "stated"
    return p
