"""Pretty printer for mini-IR programs (debugging / evidence)."""
import json, sys
def pe(e):
    k=e['k']
    if k=='var': return e['name']+(':%d'%e['size'] if e['size']!=8 else '')
    if k=='const': return '0x%s:%d'%(e['val'],e['size'])
    if k=='binop': return '(%s %s %s)'%(pe(e['l']),e['op'],pe(e['r']))
    if k=='unop': return '%s(%s)'%(e['op'],pe(e['a']))
    if k=='cast': return '%s%d(%s)'%(e['op'],e['size'],pe(e['a']))
    if k=='subpiece': return '%s[%d,+%d]'%(pe(e['a']),e['low'],e['size'])
    if k=='unknown': return 'unknown<%s>:%d'%(e.get('desc',''),e['size'])
    return k
def psub(sub):
    out=[]
    for b in sub['blocks']:
        out.append('  %s:'%b['tid'])
        for x in b['defs']:
            v=x.get('var',{}); vn=v.get('name','')+(':%d'%v['size'] if v and v['size']!=8 else '')
            if x['k']=='assign': out.append('    %s = %s'%(vn,pe(x['value'])))
            elif x['k']=='load': out.append('    %s = Load[%s]'%(vn,pe(x['address'])))
            else: out.append('    Store[%s] = %s'%(pe(x['address']),pe(x['value'])))
        for j in b['jmps']:
            t=j.get('target'); t=pe(t) if isinstance(t,dict) else t
            out.append('    %s %s %s %s'%(j['k'],t if t is not None else j.get('desc',''), ('if '+pe(j['cond'])) if 'cond' in j else '', ('ret '+str(j['ret'])) if 'ret' in j else ''))
        if b.get('ijt'): out.append('    ijt %s'%b['ijt'])
    return '\n'.join(out)
if __name__=='__main__':
    d=json.load(open(sys.argv[1]))
    print(d.get('what'), d.get('pass'))
    for s in d['program']['subs']:
        if s['tid']=='sub_f': print(psub(s))
    print(d.get('state',{}).get('regs'))
