"""SMT semantics of the cwe_checker IR (mini-IR JSON of the driver) as z3 bit-vector terms.

Strictly sorted: building a term from operands of the wrong width raises SortError (this is the C12 verdict).
Float operations and Unknown expressions are uninterpreted functions (the same function on both sides of
an equivalence query), so a pass may move them but not change their arguments.
"""
import z3


class SortError(Exception):
    pass


def bv(val, size):
    return z3.BitVecVal(val, size * 8)


def expr_size(e):
    """Byte size of an expression according to the P-Code rules (independent re-implementation of Expression::bytesize)."""
    k = e["k"]
    if k == "var":
        return e["size"]
    if k == "const":
        return e["size"]
    if k == "binop":
        op = e["op"]
        if op == "Piece":
            return expr_size(e["l"]) + expr_size(e["r"])
        if op in BOOL_RESULT:
            return 1
        return expr_size(e["l"])
    if k == "unop":
        if e["op"] == "FloatNaN":
            return 1
        return expr_size(e["a"])
    if k in ("cast", "unknown", "subpiece"):
        return e["size"]
    raise SortError("unknown expression kind %r" % k)


BOOL_RESULT = {
    "IntEqual", "IntNotEqual", "IntLess", "IntSLess", "IntLessEqual", "IntSLessEqual", "IntCarry", "IntSCarry",
    "IntSBorrow", "BoolXOr", "BoolOr", "BoolAnd", "FloatEqual", "FloatNotEqual", "FloatLess", "FloatLessEqual",
}
SAME_SIZE = {
    "IntEqual", "IntNotEqual", "IntLess", "IntSLess", "IntLessEqual", "IntSLessEqual", "IntCarry", "IntSCarry",
    "IntSBorrow", "IntAdd", "IntSub", "IntAnd", "IntOr", "IntXOr", "IntMult", "IntDiv", "IntRem", "IntSDiv", "IntSRem",
    "BoolXOr", "BoolOr", "BoolAnd", "FloatEqual", "FloatNotEqual", "FloatLess", "FloatLessEqual", "FloatAdd", "FloatSub",
    "FloatMult", "FloatDiv",
}
FLOAT_BIN = {"FloatEqual", "FloatNotEqual", "FloatLess", "FloatLessEqual", "FloatAdd", "FloatSub", "FloatMult", "FloatDiv"}
FLOAT_UN = {"FloatNegate", "FloatAbs", "FloatSqrt", "FloatCeil", "FloatFloor", "FloatRound", "FloatNaN"}
FLOAT_CAST = {"Int2Float", "Float2Float", "Trunc"}

_UF = {}


def uf(name, in_bits, out_bits):
    key = (name, tuple(in_bits), out_bits)
    if key not in _UF:
        sorts = [z3.BitVecSort(b) for b in in_bits] + [z3.BitVecSort(out_bits)]
        _UF[key] = z3.Function("uf_%s_%s_%d" % (name, "_".join(map(str, in_bits)), out_bits), *sorts)
    return _UF[key]


def b2bv(c):
    return z3.If(c, z3.BitVecVal(1, 8), z3.BitVecVal(0, 8))


def popcount(x, out_bits):
    n = x.size()
    acc = z3.BitVecVal(0, out_bits)
    for i in range(n):
        acc = acc + z3.ZeroExt(out_bits - 1, z3.Extract(i, i, x)) if out_bits > 1 else acc + z3.Extract(i, i, x)
    return acc


def lzcount(x, out_bits):
    n = x.size()
    res = z3.BitVecVal(n % (1 << out_bits), out_bits)
    # scan from the least significant bit upwards so that the most significant set bit decides
    for i in range(n):
        res = z3.If(z3.Extract(i, i, x) == 1, z3.BitVecVal((n - 1 - i) % (1 << out_bits), out_bits), res)
    return res


def resize_shift(amount, bits):
    """Shift amount operand (any width) compared against `bits`; returns (too_big, amount resized to bits)."""
    n = amount.size()
    if n > bits:
        return z3.UGE(amount, z3.BitVecVal(bits, n)), z3.Extract(bits - 1, 0, amount)
    if n < bits:
        amt = z3.ZeroExt(bits - n, amount)
        return z3.UGE(amt, z3.BitVecVal(bits, bits)), amt
    return z3.UGE(amount, z3.BitVecVal(bits, bits)), amount


class Encoder:
    """Encodes expressions over an environment mapping (name, size, temp) -> z3 term."""

    def __init__(self, lookup):
        self.lookup = lookup  # function (name, size, temp) -> z3 bitvector of size*8 bits

    def enc(self, e):
        k = e["k"]
        if k == "var":
            t = self.lookup(e["name"], e["size"], bool(e.get("temp", False)))
            if t.size() != e["size"] * 8:
                raise SortError("variable %s: environment width %d != declared %d" % (e["name"], t.size(), e["size"] * 8))
            return t
        if k == "const":
            return z3.BitVecVal(int(e["val"], 16), e["size"] * 8)
        if k == "binop":
            return self.binop(e["op"], self.enc(e["l"]), self.enc(e["r"]))
        if k == "unop":
            return self.unop(e["op"], self.enc(e["a"]))
        if k == "cast":
            return self.cast(e["op"], e["size"], self.enc(e["a"]))
        if k == "unknown":
            return uf("unknown_" + "".join(c if c.isalnum() else "_" for c in e.get("desc", ""))[:40], [], e["size"] * 8)()
        if k == "subpiece":
            a = self.enc(e["a"])
            low, size = e["low"], e["size"]
            if size <= 0 or (low + size) * 8 > a.size():
                raise SortError("subpiece [%d,+%d) of a %d-byte value" % (low, size, a.size() // 8))
            return z3.Extract((low + size) * 8 - 1, low * 8, a)
        raise SortError("unknown expression kind %r" % k)

    def binop(self, op, a, b):
        if op in SAME_SIZE and a.size() != b.size():
            raise SortError("%s: operand widths differ (%d vs %d bits)" % (op, a.size(), b.size()))
        n = a.size()
        if op in ("BoolXOr", "BoolOr", "BoolAnd") and n != 8:
            raise SortError("%s on %d-bit operands" % (op, n))
        if op == "Piece":
            return z3.Concat(a, b)
        if op == "IntEqual":
            return b2bv(a == b)
        if op == "IntNotEqual":
            return b2bv(a != b)
        if op == "IntLess":
            return b2bv(z3.ULT(a, b))
        if op == "IntSLess":
            return b2bv(a < b)
        if op == "IntLessEqual":
            return b2bv(z3.ULE(a, b))
        if op == "IntSLessEqual":
            return b2bv(a <= b)
        if op == "IntAdd":
            return a + b
        if op == "IntSub":
            return a - b
        if op == "IntCarry":
            return b2bv(z3.ULT(a + b, a))
        if op == "IntSCarry":
            s = a + b
            return b2bv(z3.Or(z3.And(a >= 0, b >= 0, s < 0), z3.And(a < 0, b < 0, s >= 0)))
        if op == "IntSBorrow":
            d = a - b
            return b2bv(z3.Or(z3.And(a >= 0, b < 0, d < 0), z3.And(a < 0, b >= 0, d >= 0)))
        if op in ("IntXOr", "BoolXOr"):
            return a ^ b
        if op in ("IntAnd", "BoolAnd"):
            return a & b
        if op in ("IntOr", "BoolOr"):
            return a | b
        if op in ("IntLeft", "IntRight", "IntSRight"):
            big, amt = resize_shift(b, n)
            if op == "IntLeft":
                return z3.If(big, z3.BitVecVal(0, n), a << amt)
            if op == "IntRight":
                return z3.If(big, z3.BitVecVal(0, n), z3.LShR(a, amt))
            return z3.If(big, z3.If(a < 0, z3.BitVecVal(-1, n), z3.BitVecVal(0, n)), a >> amt)
        if op == "IntMult":
            return a * b
        if op == "IntDiv":
            return z3.UDiv(a, b)
        if op == "IntRem":
            return z3.URem(a, b)
        if op == "IntSDiv":
            return a / b
        if op == "IntSRem":
            return z3.SRem(a, b)
        if op in FLOAT_BIN:
            out = 8 if op in BOOL_RESULT else n
            return uf(op, [n, n], out)(a, b)
        raise SortError("unknown binary operation %r" % op)

    def unop(self, op, a):
        n = a.size()
        if op == "IntNegate":
            return ~a
        if op == "Int2Comp":
            return -a
        if op == "BoolNegate":
            if n != 8:
                raise SortError("BoolNegate on a %d-bit operand" % n)
            return b2bv(a == 0)
        if op in FLOAT_UN:
            return uf(op, [n], 8 if op == "FloatNaN" else n)(a)
        raise SortError("unknown unary operation %r" % op)

    def cast(self, op, size, a):
        n, m = a.size(), size * 8
        if op in ("IntZExt", "IntSExt"):
            if m < n:
                raise SortError("%s from %d to %d bits" % (op, n, m))
            if m == n:
                return a
            return z3.ZeroExt(m - n, a) if op == "IntZExt" else z3.SignExt(m - n, a)
        if op == "PopCount":
            return popcount(a, m)
        if op == "LzCount":
            return lzcount(a, m)
        if op in FLOAT_CAST:
            return uf(op, [n], m)(a)
        raise SortError("unknown cast %r" % op)


def check_sorts(e):
    """Sort-check an expression without an environment (variables are taken at their declared size)."""
    Encoder(lambda name, size, temp: z3.BitVec("v", size * 8)).enc(e)
    return expr_size(e)
