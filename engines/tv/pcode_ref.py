"""Reference semantics of one P-Code basic block (extractor JSON schema), written from the P-Code reference
manual over byte-aliased base registers, producing the same Path/event structure as symexec.explore so that
the lifted IR block can be compared with it for all initial states.

Also contains the concrete (Python int) version used for replay.
"""
import z3
import irsmt
from symexec import Path, PTR_BITS

BIN = {
    "PIECE": "Piece", "INT_EQUAL": "IntEqual", "INT_NOTEQUAL": "IntNotEqual", "INT_LESS": "IntLess", "INT_SLESS": "IntSLess",
    "INT_LESSEQUAL": "IntLessEqual", "INT_SLESSEQUAL": "IntSLessEqual", "INT_ADD": "IntAdd", "INT_SUB": "IntSub",
    "INT_CARRY": "IntCarry", "INT_SCARRY": "IntSCarry", "INT_SBORROW": "IntSBorrow", "INT_XOR": "IntXOr", "INT_AND": "IntAnd",
    "INT_OR": "IntOr", "INT_LEFT": "IntLeft", "INT_RIGHT": "IntRight", "INT_SRIGHT": "IntSRight", "INT_MULT": "IntMult",
    "INT_DIV": "IntDiv", "INT_REM": "IntRem", "INT_SDIV": "IntSDiv", "INT_SREM": "IntSRem", "BOOL_XOR": "BoolXOr",
    "BOOL_AND": "BoolAnd", "BOOL_OR": "BoolOr", "FLOAT_EQUAL": "FloatEqual", "FLOAT_NOTEQUAL": "FloatNotEqual",
    "FLOAT_LESS": "FloatLess", "FLOAT_LESSEQUAL": "FloatLessEqual", "FLOAT_ADD": "FloatAdd", "FLOAT_SUB": "FloatSub",
    "FLOAT_MULT": "FloatMult", "FLOAT_DIV": "FloatDiv",
}
UN = {
    "INT_NEGATE": "IntNegate", "INT_2COMP": "Int2Comp", "BOOL_NEGATE": "BoolNegate", "FLOAT_NEG": "FloatNegate", "FLOAT_ABS": "FloatAbs",
    "FLOAT_SQRT": "FloatSqrt", "FLOAT_CEIL": "FloatCeil", "FLOAT_FLOOR": "FloatFloor", "FLOAT_ROUND": "FloatRound", "FLOAT_NAN": "FloatNaN",
}
CAST = {"INT_ZEXT": "IntZExt", "INT_SEXT": "IntSExt", "INT2FLOAT": "Int2Float", "FLOAT2FLOAT": "Float2Float", "TRUNC": "Trunc",
        "POPCOUNT": "PopCount", "LZCOUNT": "LzCount"}


class RegTable:
    def __init__(self, props):
        self.by_name = {p["register"]: p for p in props}

    def locate(self, name, size):
        """(base name, base size, lsb) of the bytes a register varnode aliases; None for non-registers."""
        p = self.by_name.get(name)
        if p is None:
            return None
        base = self.by_name[p["base_register"]]
        return base["register"], base["size"], p["lsb"]

    def bases(self):
        return sorted((p["register"], p["size"]) for p in self.by_name.values() if p["register"] == p["base_register"])


class SymState:
    """Byte-aliased register file + temporaries + memory, symbolic (z3)."""

    def __init__(self, regtable, le=True):
        self.rt = regtable
        self.base = {}
        self.temps = {}
        self.mem = z3.Array("mem0", z3.BitVecSort(PTR_BITS), z3.BitVecSort(8))
        self.le = le
        self.events = []
        self.calls = 0

    def base_val(self, name, size):
        if name not in self.base:
            self.base[name] = z3.BitVec("r0_%s_%d" % (name, size), size * 8)
        return self.base[name]

    def read(self, vn):
        size = vn["size"]
        if vn.get("value") is not None:
            return z3.BitVecVal(int(vn["value"], 16), size * 8)
        if vn.get("address") is not None:
            a = z3.BitVecVal(int(vn["address"], 16), PTR_BITS)
            self.events.append(("load", str(size), [a]))
            return self.load(a, size)
        name = vn["name"]
        if vn.get("is_virtual"):
            key = (name, size)
            if key not in self.temps:
                self.temps[key] = z3.BitVec("t0_%s_%d" % (name, size), size * 8)
            return self.temps[key]
        loc = self.rt.locate(name, size)
        if loc is None:
            raise irsmt.SortError("unknown register %s" % name)
        bname, bsize, lsb = loc
        b = self.base_val(bname, bsize)
        if (lsb + size) > bsize:
            raise irsmt.SortError("register view %s:%d exceeds its base register" % (name, size))
        return z3.Extract((lsb + size) * 8 - 1, lsb * 8, b) if size < bsize else b

    def write(self, vn, val):
        size = vn["size"]
        if val.size() != size * 8:
            raise irsmt.SortError("P-Code output varnode has %d bytes but the value has %d bits" % (size, val.size()))
        if vn.get("address") is not None:
            a = z3.BitVecVal(int(vn["address"], 16), PTR_BITS)
            self.events.append(("store", str(size), [a, val]))
            self.store(a, val, size)
            return
        name = vn["name"]
        if vn.get("is_virtual"):
            self.temps[(name, size)] = val
            return
        bname, bsize, lsb = self.rt.locate(name, size)
        b = self.base_val(bname, bsize)
        parts = []
        if (lsb + size) < bsize:
            parts.append(z3.Extract(bsize * 8 - 1, (lsb + size) * 8, b))
        parts.append(val)
        if lsb > 0:
            parts.append(z3.Extract(lsb * 8 - 1, 0, b))
        self.base[bname] = z3.Concat(*parts) if len(parts) > 1 else parts[0]

    def load(self, addr, size):
        bs = [z3.Select(self.mem, addr + z3.BitVecVal(i, PTR_BITS)) for i in range(size)]
        if self.le:
            bs = bs[::-1]
        return z3.Concat(*bs) if size > 1 else bs[0]

    def store(self, addr, val, size):
        for i in range(size):
            j = i if self.le else size - 1 - i
            self.mem = z3.Store(self.mem, addr + z3.BitVecVal(i, PTR_BITS), z3.Extract(8 * j + 7, 8 * j, val))

    def snapshot(self):
        return [(n, self.base_val(n, s)) for n, s in self.rt.bases()]


def exec_def(st, d, enc):
    rhs = d["rhs"]
    m = rhs["mnemonic"]
    lhs = d.get("lhs")
    i0, i1, i2 = rhs.get("input0"), rhs.get("input1"), rhs.get("input2")
    if m == "LOAD":
        a = st.read(i1)
        if a.size() != PTR_BITS:
            raise irsmt.SortError("LOAD pointer has %d bits" % a.size())
        st.events.append(("load", str(lhs["size"]), [a]))
        st.write(lhs, st.load(a, lhs["size"]))
        return
    if m == "STORE":
        a = st.read(i1)
        v = st.read(i2)
        st.events.append(("store", str(i2["size"]), [a, v]))
        st.store(a, v, i2["size"])
        return
    if m == "COPY":
        val = st.read(i0)
    elif m == "SUBPIECE":
        a = st.read(i0)
        low = int(i1["value"], 16)
        val = z3.Extract((low + lhs["size"]) * 8 - 1, low * 8, a)
    elif m in BIN:
        a = st.read(i0)
        b = st.read(i1)
        val = enc.binop(BIN[m], a, b)
    elif m in UN:
        val = enc.unop(UN[m], st.read(i0))
    elif m in CAST:
        val = enc.cast(CAST[m], lhs["size"], st.read(i0))
    else:
        raise irsmt.SortError("unknown mnemonic %s" % m)
    st.write(lhs, val)


def tid_id(t):
    return t["id"]


def exec_block(blk, regtable, le=True):
    """Reference execution of one P-Code block; returns a list of Path objects (fork at CBRANCH / indirect hints)."""
    st = SymState(regtable, le)
    enc = irsmt.Encoder(None)
    for d in blk["term"]["defs"]:
        exec_def(st, d["term"], enc)
    jmps = [j["term"] for j in blk["term"]["jmps"]]
    paths = []

    def finish(pc, events, end, choices=()):
        p = Path()
        p.pc, p.events, p.end, p.choices = pc, events, end, list(choices)
        paths.append(p)

    def leave(pc, events, tid, choices=()):
        finish(pc, events + [("leave", tid, []), ("snapshot", "", st.snapshot())], "leave", choices)

    if not jmps:
        finish([], st.events + [("snapshot", "deadend", st.snapshot())], "deadend")
        return paths
    pc = []
    idx = 0
    if jmps[0]["mnemonic"] == "CBRANCH":
        c = st.read(jmps[0]["condition"])
        if c.size() != 8:
            raise irsmt.SortError("CBRANCH condition has %d bits" % c.size())
        taken = c != 0
        leave([taken], list(st.events), tid_id(jmps[0]["goto"]["Direct"]))
        pc = [z3.Not(taken)]
        idx = 1
        if len(jmps) == 1:
            finish(pc, st.events + [("snapshot", "deadend", st.snapshot())], "deadend")
            return paths
    j = jmps[idx]
    m = j["mnemonic"]
    ev = list(st.events)
    if m == "BRANCH":
        leave(pc, ev, tid_id(j["goto"]["Direct"]))
    elif m == "BRANCHIND":
        t = st.read(j["goto"]["Indirect"])
        ev = list(st.events) + [("jmpind", "", [t])]
        hints = j.get("target_hints") or []
        if not hints:
            finish(pc, ev + [("snapshot", "jmpind", st.snapshot())], "deadend")
        else:
            for h in hints:
                leave(pc, ev, "blk_%s" % h, ("blk_%s" % h,))
    elif m in ("CALL", "CALLIND", "CALLOTHER"):
        call = j["call"]
        if m == "CALL":
            ev.append(("call", tid_id(call["target"]["Direct"]), []))
        elif m == "CALLIND":
            t = st.read(call["target"]["Indirect"])
            ev = list(st.events) + [("callind", "", [t])]
        else:
            ev.append(("callother", call.get("call_string") or "", []))
        ev.append(("snapshot", "call", st.snapshot()))
        ret = call.get("return")
        if ret is None or m == "CALLOTHER":
            finish(pc, ev, "noreturn")
        else:
            # after the call every base register and memory are unknown (same havoc symbols as symexec.State.havoc)
            for n, s in regtable.bases():
                st.base[n] = z3.BitVec("havoc0_%s_%d" % (n, s), s * 8)
            st.mem = z3.Array("havocmem0", z3.BitVecSort(PTR_BITS), z3.BitVecSort(8))
            finish(pc, ev + [("leave", tid_id(ret["Direct"]), []), ("snapshot", "", st.snapshot())], "leave")
    elif m == "RETURN":
        t = st.read(j["goto"]["Indirect"])
        ev = list(st.events) + [("return", "", [t]), ("snapshot", "return", st.snapshot())]
        finish(pc, ev, "return")
    else:
        raise irsmt.SortError("unknown jump mnemonic %s" % m)
    return paths


# ---------------------------------------------------------------- concrete replay (Python integers)

import concrete  # noqa: E402


def _c(v, size):
    return {"k": "const", "size": size, "val": "%x" % (v & ((1 << (8 * size)) - 1))}


def run_block_concrete(blk, regtable, init_reg, init_mem, havoc, oracle, le=True, choices=()):
    """Concrete execution of one P-Code block; trace format identical to concrete.run on the lifted block."""
    base, temps, mem = {}, {}, {}
    state = {"reg0": init_reg, "mem0": init_mem}
    trace = []
    M = concrete.mask

    def bval(n, s):
        if n not in base:
            base[n] = state["reg0"](n, s, False) & M(8 * s)
        return base[n]

    def rd(a):
        a &= M(64)
        if a not in mem:
            mem[a] = state["mem0"](a) & 0xff
        return mem[a]

    def load(a, n):
        v = 0
        for i in range(n):
            v |= rd(a + i) << (8 * i if le else 8 * (n - 1 - i))
        return v

    def store(a, v, n):
        for i in range(n):
            mem[(a + i) & M(64)] = (v >> (8 * i if le else 8 * (n - 1 - i))) & 0xff

    def read(vn):
        s = vn["size"]
        if vn.get("value") is not None:
            return int(vn["value"], 16) & M(8 * s)
        if vn.get("address") is not None:
            a = int(vn["address"], 16)
            trace.append(("load", s, a))
            return load(a, s)
        if vn.get("is_virtual"):
            k = (vn["name"], s)
            if k not in temps:
                temps[k] = state["reg0"](vn["name"], s, True) & M(8 * s)
            return temps[k]
        bn, bs, lsb = regtable.locate(vn["name"], s)
        return (bval(bn, bs) >> (8 * lsb)) & M(8 * s)

    def write(vn, v):
        s = vn["size"]
        v &= M(8 * s)
        if vn.get("address") is not None:
            a = int(vn["address"], 16)
            trace.append(("store", s, a, v))
            store(a, v, s)
        elif vn.get("is_virtual"):
            temps[(vn["name"], s)] = v
        else:
            bn, bs, lsb = regtable.locate(vn["name"], s)
            b = bval(bn, bs)
            base[bn] = (b & ~(M(8 * s) << (8 * lsb)) & M(8 * bs)) | (v << (8 * lsb))

    def snapshot(tag):
        vals = tuple((n, bval(n, s)) for n, s in regtable.bases())
        trace.append(("snapshot", tag, vals, ("mem", tuple(sorted(mem.items())), 0)))

    env = None
    for d in blk["term"]["defs"]:
        t = d["term"]
        rhs, lhs = t["rhs"], t.get("lhs")
        m = rhs["mnemonic"]
        i0, i1, i2 = rhs.get("input0"), rhs.get("input1"), rhs.get("input2")
        if m == "LOAD":
            a = read(i1)
            trace.append(("load", lhs["size"], a))
            write(lhs, load(a, lhs["size"]))
        elif m == "STORE":
            a = read(i1)
            v = read(i2)
            trace.append(("store", i2["size"], a, v))
            store(a, v, i2["size"])
        elif m == "COPY":
            write(lhs, read(i0))
        elif m == "SUBPIECE":
            a = read(i0)
            write(lhs, a >> (8 * int(i1["value"], 16)))
        elif m in BIN:
            a = read(i0)
            b = read(i1)
            write(lhs, concrete.ev({"k": "binop", "op": BIN[m], "l": _c(a, i0["size"]), "r": _c(b, i1["size"])}, env, oracle))
        elif m in UN:
            write(lhs, concrete.ev({"k": "unop", "op": UN[m], "a": _c(read(i0), i0["size"])}, env, oracle))
        elif m in CAST:
            write(lhs, concrete.ev({"k": "cast", "op": CAST[m], "size": lhs["size"], "a": _c(read(i0), i0["size"])}, env, oracle))
        else:
            raise concrete.Stuck(m)
    jmps = [j["term"] for j in blk["term"]["jmps"]]
    if not jmps:
        snapshot("deadend")
        return trace
    idx = 0
    if jmps[0]["mnemonic"] == "CBRANCH":
        if read(jmps[0]["condition"]) != 0:
            trace.append(("leave", jmps[0]["goto"]["Direct"]["id"]))
            snapshot("")
            return trace
        idx = 1
        if len(jmps) == 1:
            snapshot("deadend")
            return trace
    j = jmps[idx]
    m = j["mnemonic"]
    if m == "BRANCH":
        trace.append(("leave", j["goto"]["Direct"]["id"]))
        snapshot("")
    elif m == "BRANCHIND":
        trace.append(("jmpind", read(j["goto"]["Indirect"])))
        hints = j.get("target_hints") or []
        if not hints:
            snapshot("jmpind")
        else:
            trace.append(("leave", choices[0] if choices else "blk_%s" % hints[0]))
            snapshot("")
    elif m in ("CALL", "CALLIND", "CALLOTHER"):
        call = j["call"]
        if m == "CALL":
            trace.append(("call", call["target"]["Direct"]["id"]))
        elif m == "CALLIND":
            trace.append(("callind", read(call["target"]["Indirect"])))
        else:
            trace.append(("callother", call.get("call_string") or ""))
        snapshot("call")
        if call.get("return") is not None and m != "CALLOTHER":
            hr, hm = havoc(0)
            base.clear()
            temps.clear()
            mem.clear()
            state["reg0"], state["mem0"] = hr, hm
            trace.append(("leave", call["return"]["Direct"]["id"]))
            snapshot("")
    elif m == "RETURN":
        trace.append(("return", read(j["goto"]["Indirect"])))
        snapshot("return")
    return trace
