//! `pi` command: run the REAL function-signature analysis and pointer inference on a generated project and
//! dump, per block start, the abstract value of every register.
use crate::conv;
use crate::domain::iv_to;
use cwe_checker_lib::abstract_domain::*;
use cwe_checker_lib::analysis::graph::Node;
use cwe_checker_lib::analysis::interprocedural_fixpoint_generic::NodeValue;
use cwe_checker_lib::intermediate_representation::*;
use cwe_checker_lib::pipeline::AnalysisResults;
use serde_json::{json, Value};

fn id_to(id: &AbstractIdentifier) -> Value {
    let loc = match id.get_location() {
        AbstractLocation::Register(var) if id.get_path_hints().is_empty() => json!({"reg": var.name, "size": u64::from(var.size)}),
        other => json!({"other": format!("{}", other)}),
    };
    json!({"tid": format!("{}", id.get_tid()), "loc": loc, "display": format!("{}", id)})
}

fn data_to(d: &DataDomain<IntervalDomain>) -> Value {
    let rel: Vec<Value> = d.get_relative_values().iter().map(|(id, off)| json!({"id": id_to(id), "offset": iv_to(off)})).collect();
    json!({"size": u64::from(d.bytesize()), "abs": d.get_absolute_value().map(iv_to), "rel": rel, "top": d.contains_top()})
}

pub fn cmd_pi(v: &Value) -> Value {
    let mut project = conv::project_from(v);
    let _ = project.normalize_basic();
    if v["optimize"].as_bool().unwrap_or(false) {
        let _ = project.normalize_optimize();
    }
    let graph = cwe_checker_lib::analysis::graph::get_program_cfg(&project.program);
    let results = AnalysisResults::new(&[], &graph, &project);
    let (sigs, _logs) = results.compute_function_signatures();
    let results = results.with_function_signatures(Some(&sigs));
    let pi = results.compute_pointer_inference(&json!({"allocation_symbols": ["malloc"]}), false);
    let stabilized = !pi.collected_logs.0.iter().any(|l| l.text.contains("did not stabilize"));
    let fn_tid = v["function"].as_str().unwrap_or("sub_f");
    let mut nodes = serde_json::Map::new();
    let g = pi.get_graph();
    for node in g.node_indices() {
        if let Node::BlkStart(blk, sub) = g[node] {
            if format!("{}", sub.tid) != fn_tid {
                continue;
            }
            let entry = match pi.get_node_value(node) {
                Some(NodeValue::Value(state)) => {
                    let regs: serde_json::Map<String, Value> = project
                        .register_set
                        .iter()
                        .map(|var| (var.name.clone(), data_to(&state.get_register(var))))
                        .collect();
                    json!({"state": true, "stack_id": id_to(&state.stack_id), "regs": regs})
                }
                _ => json!({"state": false}),
            };
            nodes.insert(format!("{}", blk.tid), entry);
        }
    }
    json!({"stabilized": stabilized, "nodes": nodes, "project": conv::project_to(&project),
           "logs": pi.collected_logs.0.iter().map(|l| l.text.clone()).collect::<Vec<_>>(),
           "warnings": pi.collected_logs.1.iter().map(|w| format!("{} {:?}", w.name, w.addresses)).collect::<Vec<_>>()})
}
