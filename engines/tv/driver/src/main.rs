//! Native driver of engine T: runs the REAL cwe_checker passes on generated inputs and dumps
//! inputs/outputs in the canonical JSON defined in conv.rs. One JSON document per input line.
mod conv;
mod domain;
mod pi;

use cwe_checker_lib::intermediate_representation::*;
use serde_json::{json, Value};
use std::io::{BufRead, Write};
use std::panic::{catch_unwind, AssertUnwindSafe};

fn panic_msg(p: Box<dyn std::any::Any + Send>) -> String {
    p.downcast_ref::<String>().cloned().or_else(|| p.downcast_ref::<&str>().map(|s| s.to_string())).unwrap_or_else(|| "panic".into())
}

/// `optimize`: mini project -> { basic, optimized, passes: {name: project after that pass alone}, logs }
fn cmd_optimize(v: &Value) -> Value {
    let mut project = conv::project_from(v);
    let r = catch_unwind(AssertUnwindSafe(|| {
        let _ = project.normalize_basic();
        project
    }));
    let basic = match r {
        Ok(p) => p,
        Err(p) => return json!({"panic": format!("normalize_basic: {}", panic_msg(p))}),
    };
    let mut out = json!({"basic": conv::project_to(&basic)});
    let mut full = basic.clone();
    match catch_unwind(AssertUnwindSafe(|| {
        let logs = full.normalize_optimize();
        (full, logs)
    })) {
        Ok((p, logs)) => {
            out["optimized"] = conv::project_to(&p);
            out["logs"] = json!(logs.iter().map(|l| l.text.clone()).collect::<Vec<_>>());
        }
        Err(p) => {
            out["panic"] = json!(format!("normalize_optimize: {}", panic_msg(p)));
            return out;
        }
    }
    if v["per_pass"].as_bool().unwrap_or(false) {
        let mut passes = serde_json::Map::new();
        type Pass = (&'static str, fn(&mut Project));
        let list: [Pass; 5] = [
            ("expression_propagation", |p| cwe_checker_lib::analysis::expression_propagation::propagate_input_expression(p)),
            ("trivial_expression_substitution", |p| p.substitute_trivial_expressions()),
            ("dead_variable_elimination", |p| cwe_checker_lib::analysis::dead_variable_elimination::remove_dead_var_assignments(p)),
            ("control_flow_propagation", |p| propagate_control_flow::propagate_control_flow(p)),
            ("stack_alignment_substitution", |p| {
                let _ = cwe_checker_lib::analysis::stack_alignment_substitution::substitute_and_on_stackpointer(p);
            }),
        ];
        for (name, f) in list.iter() {
            let mut p = basic.clone();
            match catch_unwind(AssertUnwindSafe(|| {
                f(&mut p);
                p
            })) {
                Ok(p) => {
                    passes.insert(name.to_string(), conv::project_to(&p));
                }
                Err(e) => {
                    passes.insert(name.to_string(), json!({"panic": panic_msg(e)}));
                }
            }
        }
        out["passes"] = Value::Object(passes);
    }
    out
}

/// `lift`: P-Code project in the extractor's JSON schema (real serde types) -> { ir, normalized }
fn cmd_lift(v: &Value) -> Value {
    let pcode: Result<cwe_checker_lib::pcode::Project, _> = serde_json::from_value(v["project"].clone());
    let mut pcode = match pcode {
        Ok(p) => p,
        Err(e) => return json!({"error": format!("pcode project does not deserialize: {}", e)}),
    };
    let r = catch_unwind(AssertUnwindSafe(|| {
        let logs = pcode.normalize();
        let ir = pcode.into_ir_project(0);
        (ir, logs)
    }));
    let (ir, logs) = match r {
        Ok(x) => x,
        Err(p) => return json!({"panic": format!("lifting: {}", panic_msg(p))}),
    };
    let mut out = json!({"ir": conv::project_to(&ir), "logs": logs.iter().map(|l| l.text.clone()).collect::<Vec<_>>()});
    let mut full = ir.clone();
    match catch_unwind(AssertUnwindSafe(|| {
        let _ = full.normalize();
        full
    })) {
        Ok(p) => out["normalized"] = conv::project_to(&p),
        Err(p) => out["normalize_panic"] = json!(panic_msg(p)),
    }
    out
}

/// `evalexpr`: evaluate a variable-free expression with the library's own constant folding (used to validate the SMT and
/// Python semantics of the IR against the real code).
fn eval_expr(e: &Expression) -> Option<Bitvector> {
    match e {
        Expression::Const(c) => Some(c.clone()),
        Expression::BinOp { op, lhs, rhs } => eval_expr(lhs)?.bin_op(*op, &eval_expr(rhs)?).ok(),
        Expression::UnOp { op, arg } => eval_expr(arg)?.un_op(*op).ok(),
        Expression::Cast { op, size, arg } => eval_expr(arg)?.cast(*op, *size).ok(),
        Expression::Subpiece { low_byte, size, arg } => Some(eval_expr(arg)?.subpiece(*low_byte, *size)),
        _ => None,
    }
}

fn cmd_evalexpr(v: &Value) -> Value {
    let e = conv::expr_from(&v["e"]);
    match eval_expr(&e) {
        Some(b) => json!({"val": conv::bv_to_hex(&b), "size": u64::from(b.bytesize()), "bytesize": u64::from(e.bytesize())}),
        None => json!({"unknown": true, "bytesize": u64::from(e.bytesize())}),
    }
}

/// `fmt`: { "s": format string } -> real parse_format_string_parameters result; { "spec": "lf" } -> real Datatype::from + size
fn cmd_fmt(v: &Value) -> Value {
    use cwe_checker_lib::intermediate_representation::{Datatype, DatatypeProperties};
    let props = DatatypeProperties {
        char_size: ByteSize::new(1), double_size: ByteSize::new(8), float_size: ByteSize::new(4), integer_size: ByteSize::new(4),
        long_double_size: ByteSize::new(16), long_long_size: ByteSize::new(8), long_size: ByteSize::new(8), pointer_size: ByteSize::new(8), short_size: ByteSize::new(2),
    };
    if let Some(spec) = v["spec"].as_str() {
        let spec = spec.to_string();
        return match catch_unwind(AssertUnwindSafe(|| Datatype::from(spec))) {
            Ok(dt) => {
                let promoted = if matches!(dt, Datatype::Char) { props.get_size_from_data_type(Datatype::Integer) } else { props.get_size_from_data_type(dt.clone()) };
                json!({"datatype": format!("{:?}", dt), "size": u64::from(promoted)})
            }
            Err(p) => json!({"panic": panic_msg(p)}),
        };
    }
    let s = v["s"].as_str().unwrap();
    match catch_unwind(AssertUnwindSafe(|| cwe_checker_lib::utils::arguments::parse_format_string_parameters(s, &props))) {
        Ok(Ok(list)) => json!({"ok": list.iter().map(|(d, sz)| json!([format!("{:?}", d), u64::from(*sz)])).collect::<Vec<_>>()}),
        Ok(Err(_)) => json!({"rejected": true}),
        Err(p) => json!({"panic": panic_msg(p)}),
    }
}

fn main() {
    let args: Vec<String> = std::env::args().collect();
    let cmd = args.get(1).map(|s| s.as_str()).unwrap_or("");
    std::panic::set_hook(Box::new(|_| {}));
    let stdin = std::io::stdin();
    let stdout = std::io::stdout();
    let mut out = stdout.lock();
    for line in stdin.lock().lines() {
        let line = line.unwrap();
        if line.trim().is_empty() {
            continue;
        }
        let v: Value = match serde_json::from_str(&line) {
            Ok(v) => v,
            Err(e) => {
                writeln!(out, "{}", json!({"error": format!("bad json: {}", e)})).unwrap();
                continue;
            }
        };
        let r = match cmd {
            "domain" => catch_unwind(AssertUnwindSafe(|| domain::cmd_domain(&v))).unwrap_or_else(|p| json!({"panic": panic_msg(p)})),
            "evalexpr" => catch_unwind(AssertUnwindSafe(|| cmd_evalexpr(&v))).unwrap_or_else(|p| json!({"panic": panic_msg(p)})),
            "fmt" => catch_unwind(AssertUnwindSafe(|| cmd_fmt(&v))).unwrap_or_else(|p| json!({"panic": panic_msg(p)})),
            "pi" => catch_unwind(AssertUnwindSafe(|| pi::cmd_pi(&v))).unwrap_or_else(|p| json!({"panic": panic_msg(p)})),
            "lift" => catch_unwind(AssertUnwindSafe(|| cmd_lift(&v))).unwrap_or_else(|p| json!({"panic": panic_msg(p)})),
            "optimize" => catch_unwind(AssertUnwindSafe(|| cmd_optimize(&v))).unwrap_or_else(|p| json!({"panic": panic_msg(p)})),
            _ => json!({"error": "unknown command"}),
        };
        writeln!(out, "{}", r).unwrap();
        out.flush().unwrap();
    }
}
