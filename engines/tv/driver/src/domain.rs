//! `domain` command: run the REAL abstract-domain operations on abstract values given as JSON and dump the results.
//! The Python side then asks z3 whether every concrete member of the inputs is covered by the result.

use crate::conv::{bv_from_hex, bv_to_hex};
use cwe_checker_lib::abstract_domain::*;
use cwe_checker_lib::intermediate_representation::*;
use serde_json::{json, Value};
use std::collections::BTreeMap;

type Data = DataDomain<IntervalDomain>;

fn parse_enum<T: serde::de::DeserializeOwned>(s: &str) -> T {
    serde_json::from_value(Value::String(s.to_string())).unwrap_or_else(|_| panic!("bad enum value {}", s))
}

pub fn iv_from(v: &Value) -> IntervalDomain {
    let size = v["size"].as_u64().unwrap();
    let b = |k: &str| bv_from_hex(v[k].as_str().unwrap(), size);
    let hint = |k: &str| if v[k].is_null() { None } else { Some(b(k)) };
    IntervalDomain::verif_from_parts(
        Interval { start: b("start"), end: b("end"), stride: v["stride"].as_u64().unwrap() },
        hint("lower"),
        hint("upper"),
        v["delay"].as_u64().unwrap_or(0),
    )
}

pub fn iv_to(d: &IntervalDomain) -> Value {
    let (i, lo, hi, delay) = d.verif_parts();
    json!({
        "size": u64::from(i.start.bytesize()),
        "end_size": u64::from(i.end.bytesize()),
        "start": bv_to_hex(&i.start),
        "end": bv_to_hex(&i.end),
        "stride": i.stride,
        "lower": lo.as_ref().map(bv_to_hex),
        "upper": hi.as_ref().map(bv_to_hex),
        "lower_size": lo.as_ref().map(|b| u64::from(b.bytesize())),
        "upper_size": hi.as_ref().map(|b| u64::from(b.bytesize())),
        "delay": delay,
        "is_top": d.is_top(),
    })
}

fn id_from(name: &str) -> AbstractIdentifier {
    AbstractIdentifier::new(
        Tid::new(name),
        AbstractLocation::Register(Variable { name: "RAX".to_string(), size: ByteSize::new(8), is_temp: false }),
    )
}

pub fn data_from(v: &Value) -> Data {
    let size = ByteSize::new(v["size"].as_u64().unwrap());
    let mut d = Data::new_empty(size);
    if !v["abs"].is_null() {
        d.set_absolute_value(Some(iv_from(&v["abs"])));
    }
    let mut rel = BTreeMap::new();
    if let Some(m) = v["rel"].as_object() {
        for (k, off) in m {
            rel.insert(id_from(k), iv_from(off));
        }
    }
    d.set_relative_values(rel);
    if v["top"].as_bool().unwrap_or(false) {
        d.set_contains_top_flag();
    }
    d
}

pub fn data_to(d: &Data) -> Value {
    let rel: serde_json::Map<String, Value> = d.get_relative_values().iter().map(|(id, off)| (format!("{}", id.get_tid()), iv_to(off))).collect();
    json!({
        "size": u64::from(d.bytesize()),
        "abs": d.get_absolute_value().map(iv_to),
        "rel": rel,
        "top": d.contains_top(),
    })
}

fn bvdom_from(v: &Value) -> BitvectorDomain {
    let size = v["size"].as_u64().unwrap();
    if v["val"].is_null() {
        BitvectorDomain::Top(ByteSize::new(size))
    } else {
        BitvectorDomain::Value(bv_from_hex(v["val"].as_str().unwrap(), size))
    }
}

fn bvdom_to(d: &BitvectorDomain) -> Value {
    match d {
        BitvectorDomain::Top(s) => json!({"size": u64::from(*s), "val": null}),
        BitvectorDomain::Value(b) => json!({"size": u64::from(b.bytesize()), "val": bv_to_hex(b)}),
    }
}

fn refine<T: SpecializeByConditional>(a: T, kind: &str, bound: &Bitvector) -> Result<T, anyhow::Error> {
    match kind {
        "sle" => a.add_signed_less_equal_bound(bound),
        "sge" => a.add_signed_greater_equal_bound(bound),
        "ule" => a.add_unsigned_less_equal_bound(bound),
        "uge" => a.add_unsigned_greater_equal_bound(bound),
        "ne" => a.add_not_equal_bound(bound),
        k => panic!("bad refinement {}", k),
    }
}

fn map_from<S: MapMergeStrategy<String, BitvectorDomain> + Clone + Eq>(v: &Value) -> DomainMap<String, BitvectorDomain, S> {
    v.as_object().unwrap().iter().map(|(k, x)| (k.clone(), bvdom_from(x))).collect()
}

fn map_to<S: MapMergeStrategy<String, BitvectorDomain> + Clone + Eq>(m: &DomainMap<String, BitvectorDomain, S>) -> Value {
    Value::Object(m.iter().map(|(k, x)| (k.clone(), bvdom_to(x))).collect())
}

fn region_from(v: &Value) -> MemRegion<BitvectorDomain> {
    let mut r = MemRegion::new(ByteSize::new(8));
    for cell in v.as_array().unwrap() {
        r.insert_at_byte_index(bvdom_from(&cell["value"]), cell["offset"].as_i64().unwrap());
    }
    r
}

fn region_to(r: &MemRegion<BitvectorDomain>) -> Value {
    Value::Array(r.iter().map(|(off, val)| json!({"offset": off, "value": bvdom_to(val)})).collect())
}

pub fn cmd_domain(v: &Value) -> Value {
    let op = v["op"].as_str().unwrap();
    match op {
        "iv_bin_op" => {
            let (a, b) = (iv_from(&v["a"]), iv_from(&v["b"]));
            json!({"r": iv_to(&a.bin_op(parse_enum(v["binop"].as_str().unwrap()), &b))})
        }
        "iv_un_op" => json!({"r": iv_to(&iv_from(&v["a"]).un_op(parse_enum(v["unop"].as_str().unwrap())))}),
        "iv_cast" => json!({"r": iv_to(&iv_from(&v["a"]).cast(parse_enum(v["cast"].as_str().unwrap()), ByteSize::new(v["out"].as_u64().unwrap())))}),
        "iv_subpiece" => json!({"r": iv_to(&iv_from(&v["a"]).subpiece(ByteSize::new(v["low"].as_u64().unwrap()), ByteSize::new(v["out"].as_u64().unwrap())))}),
        "iv_merge" => {
            let (a, b) = (iv_from(&v["a"]), iv_from(&v["b"]));
            let m = a.merge(&b);
            let mut mw = a.clone();
            mw.merge_with(&b);
            json!({"r": iv_to(&m), "mw": iv_to(&mw), "merge_with_equal": mw == m, "again_a": iv_to(&m.merge(&a)), "again_b": iv_to(&m.merge(&b)), "self": iv_to(&a.merge(&a))})
        }
        "iv_refine" => {
            let a = iv_from(&v["a"]);
            let size = v["a"]["size"].as_u64().unwrap();
            match refine(a, v["kind"].as_str().unwrap(), &bv_from_hex(v["bound"].as_str().unwrap(), size)) {
                Ok(r) => json!({"r": iv_to(&r)}),
                Err(_) => json!({"r": null}),
            }
        }
        "iv_intersect" => match iv_from(&v["a"]).intersect(&iv_from(&v["b"])) {
            Ok(r) => json!({"r": iv_to(&r)}),
            Err(_) => json!({"r": null}),
        },
        "dd_bin_op" => {
            let (a, b) = (data_from(&v["a"]), data_from(&v["b"]));
            json!({"r": data_to(&a.bin_op(parse_enum(v["binop"].as_str().unwrap()), &b))})
        }
        "dd_un_op" => json!({"r": data_to(&data_from(&v["a"]).un_op(parse_enum(v["unop"].as_str().unwrap())))}),
        "dd_cast" => json!({"r": data_to(&data_from(&v["a"]).cast(parse_enum(v["cast"].as_str().unwrap()), ByteSize::new(v["out"].as_u64().unwrap())))}),
        "dd_subpiece" => json!({"r": data_to(&data_from(&v["a"]).subpiece(ByteSize::new(v["low"].as_u64().unwrap()), ByteSize::new(v["out"].as_u64().unwrap())))}),
        "dd_merge" => {
            let (a, b) = (data_from(&v["a"]), data_from(&v["b"]));
            let m = a.merge(&b);
            let mut mw = a.clone();
            mw.merge_with(&b);
            json!({"r": data_to(&m), "mw": data_to(&mw), "merge_with_equal": mw == m, "again_a": data_to(&m.merge(&a)), "again_b": data_to(&m.merge(&b)), "self": data_to(&a.merge(&a))})
        }
        "dd_refine" => {
            let a = data_from(&v["a"]);
            let size = v["a"]["size"].as_u64().unwrap();
            match refine(a, v["kind"].as_str().unwrap(), &bv_from_hex(v["bound"].as_str().unwrap(), size)) {
                Ok(r) => json!({"r": data_to(&r)}),
                Err(_) => json!({"r": null}),
            }
        }
        "dd_intersect" => match data_from(&v["a"]).intersect(&data_from(&v["b"])) {
            Ok(r) => json!({"r": data_to(&r)}),
            Err(_) => json!({"r": null}),
        },
        "map_merge" => {
            macro_rules! go {
                ($s:ty) => {{
                    let (a, b) = (map_from::<$s>(&v["a"]), map_from::<$s>(&v["b"]));
                    let m = a.merge(&b);
                    let mut mw = a.clone();
                    mw.merge_with(&b);
                    json!({"r": map_to(&m), "merge_with_equal": mw == m, "again_a": map_to(&m.merge(&a)), "again_b": map_to(&m.merge(&b)), "self": map_to(&a.merge(&a))})
                }};
            }
            match v["strategy"].as_str().unwrap() {
                "union" => go!(UnionMergeStrategy),
                "intersect" => go!(IntersectMergeStrategy),
                "merge_top" => go!(MergeTopStrategy),
                s => panic!("bad strategy {}", s),
            }
        }
        "region_merge" => {
            let (a, b) = (region_from(&v["a"]), region_from(&v["b"]));
            let m = a.merge(&b);
            let mut mw = a.clone();
            mw.merge_with(&b);
            json!({"a_norm": region_to(&a), "b_norm": region_to(&b), "r": region_to(&m), "merge_with_equal": mw == m, "again_a": region_to(&m.merge(&a)), "again_b": region_to(&m.merge(&b)), "self": region_to(&a.merge(&a))})
        }
        _ => json!({"error": format!("unknown domain op {}", op)}),
    }
}
