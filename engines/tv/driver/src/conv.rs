//! Conversion between the driver's canonical JSON ("mini-IR") and the real IR types of cwe_checker_lib.
//! The real `Project` cannot be serialized to JSON by serde (maps keyed by `Tid`), so the interchange
//! format is defined here; it is a 1:1 rendering of the IR types.

use cwe_checker_lib::intermediate_representation::*;
use serde_json::{json, Value};
use std::collections::{BTreeMap, BTreeSet};

pub fn bv_from_hex(hex: &str, size: u64) -> Bitvector {
    let bits = (size * 8) as usize;
    let h = hex.trim_start_matches("0x");
    // build from 64-bit limbs, most significant first
    let mut padded = String::new();
    let want = ((bits + 63) / 64) * 16;
    for _ in h.len()..want {
        padded.push('0');
    }
    padded.push_str(h);
    let padded = &padded[padded.len() - want..];
    let limbs: Vec<u64> = (0..want / 16).map(|i| u64::from_str_radix(&padded[16 * i..16 * i + 16], 16).unwrap()).collect();
    // assemble with apint primitives only (no cwe_checker code): acc = (acc << 64) | limb
    let wide_bits = want * 4;
    let mut acc = Bitvector::from_u64(limbs[0]).into_zero_resize(wide_bits);
    for l in limbs.iter().skip(1) {
        acc = acc.into_checked_shl(64).unwrap() | &Bitvector::from_u64(*l).into_zero_resize(wide_bits);
    }
    if bits == wide_bits {
        acc
    } else {
        acc.into_truncate(bits).unwrap()
    }
}

pub fn bv_to_hex(bv: &Bitvector) -> String {
    format!("{:x}", bv).to_lowercase()
}

pub fn var_from(v: &Value) -> Variable {
    Variable {
        name: v["name"].as_str().unwrap().to_string(),
        size: ByteSize::new(v["size"].as_u64().unwrap()),
        is_temp: v["temp"].as_bool().unwrap_or(false),
    }
}

pub fn var_to(v: &Variable) -> Value {
    json!({"name": v.name, "size": u64::from(v.size), "temp": v.is_temp})
}

fn parse_enum<T: serde::de::DeserializeOwned>(s: &str) -> T {
    serde_json::from_value(Value::String(s.to_string())).unwrap_or_else(|_| panic!("bad enum value {}", s))
}

fn enum_name<T: serde::Serialize>(t: &T) -> String {
    serde_json::to_value(t).unwrap().as_str().unwrap().to_string()
}

pub fn expr_from(v: &Value) -> Expression {
    match v["k"].as_str().unwrap() {
        "var" => Expression::Var(var_from(v)),
        "const" => Expression::Const(bv_from_hex(v["val"].as_str().unwrap(), v["size"].as_u64().unwrap())),
        "binop" => Expression::BinOp {
            op: parse_enum(v["op"].as_str().unwrap()),
            lhs: Box::new(expr_from(&v["l"])),
            rhs: Box::new(expr_from(&v["r"])),
        },
        "unop" => Expression::UnOp { op: parse_enum(v["op"].as_str().unwrap()), arg: Box::new(expr_from(&v["a"])) },
        "cast" => Expression::Cast {
            op: parse_enum(v["op"].as_str().unwrap()),
            size: ByteSize::new(v["size"].as_u64().unwrap()),
            arg: Box::new(expr_from(&v["a"])),
        },
        "unknown" => Expression::Unknown {
            description: v["desc"].as_str().unwrap_or("").to_string(),
            size: ByteSize::new(v["size"].as_u64().unwrap()),
        },
        "subpiece" => Expression::Subpiece {
            low_byte: ByteSize::new(v["low"].as_u64().unwrap()),
            size: ByteSize::new(v["size"].as_u64().unwrap()),
            arg: Box::new(expr_from(&v["a"])),
        },
        k => panic!("bad expression kind {}", k),
    }
}

pub fn expr_to(e: &Expression) -> Value {
    match e {
        Expression::Var(v) => json!({"k": "var", "name": v.name, "size": u64::from(v.size), "temp": v.is_temp}),
        Expression::Const(c) => json!({"k": "const", "size": u64::from(c.bytesize()), "val": bv_to_hex(c)}),
        Expression::BinOp { op, lhs, rhs } => json!({"k": "binop", "op": enum_name(op), "l": expr_to(lhs), "r": expr_to(rhs)}),
        Expression::UnOp { op, arg } => json!({"k": "unop", "op": enum_name(op), "a": expr_to(arg)}),
        Expression::Cast { op, size, arg } => json!({"k": "cast", "op": enum_name(op), "size": u64::from(*size), "a": expr_to(arg)}),
        Expression::Unknown { description, size } => json!({"k": "unknown", "desc": description, "size": u64::from(*size)}),
        Expression::Subpiece { low_byte, size, arg } => json!({"k": "subpiece", "low": u64::from(*low_byte), "size": u64::from(*size), "a": expr_to(arg)}),
    }
}

fn tid_from(v: &Value) -> Tid {
    Tid::new(v.as_str().unwrap())
}

fn tid_to(t: &Tid) -> Value {
    Value::String(format!("{}", t))
}

fn opt_tid_from(v: &Value) -> Option<Tid> {
    if v.is_null() {
        None
    } else {
        Some(tid_from(v))
    }
}

fn opt_tid_to(t: &Option<Tid>) -> Value {
    match t {
        Some(t) => tid_to(t),
        None => Value::Null,
    }
}

pub fn def_from(v: &Value) -> Term<Def> {
    let tid = tid_from(&v["tid"]);
    let term = match v["k"].as_str().unwrap() {
        "assign" => Def::Assign { var: var_from(&v["var"]), value: expr_from(&v["value"]) },
        "load" => Def::Load { var: var_from(&v["var"]), address: expr_from(&v["address"]) },
        "store" => Def::Store { address: expr_from(&v["address"]), value: expr_from(&v["value"]) },
        k => panic!("bad def kind {}", k),
    };
    Term { tid, term }
}

pub fn def_to(d: &Term<Def>) -> Value {
    match &d.term {
        // "bytesize": the library's own Expression::bytesize of the assigned value (cross-checked by the encoder)
        Def::Assign { var, value } => json!({"tid": tid_to(&d.tid), "k": "assign", "var": var_to(var), "value": expr_to(value), "bytesize": u64::from(value.bytesize())}),
        Def::Load { var, address } => json!({"tid": tid_to(&d.tid), "k": "load", "var": var_to(var), "address": expr_to(address)}),
        Def::Store { address, value } => json!({"tid": tid_to(&d.tid), "k": "store", "address": expr_to(address), "value": expr_to(value)}),
    }
}

pub fn jmp_from(v: &Value) -> Term<Jmp> {
    let tid = tid_from(&v["tid"]);
    let term = match v["k"].as_str().unwrap() {
        "branch" => Jmp::Branch(tid_from(&v["target"])),
        "branchind" => Jmp::BranchInd(expr_from(&v["target"])),
        "cbranch" => Jmp::CBranch { target: tid_from(&v["target"]), condition: expr_from(&v["cond"]) },
        "call" => Jmp::Call { target: tid_from(&v["target"]), return_: opt_tid_from(&v["ret"]) },
        "callind" => Jmp::CallInd { target: expr_from(&v["target"]), return_: opt_tid_from(&v["ret"]) },
        "return" => Jmp::Return(expr_from(&v["target"])),
        "callother" => Jmp::CallOther { description: v["desc"].as_str().unwrap_or("").to_string(), return_: opt_tid_from(&v["ret"]) },
        k => panic!("bad jmp kind {}", k),
    };
    Term { tid, term }
}

pub fn jmp_to(j: &Term<Jmp>) -> Value {
    let t = tid_to(&j.tid);
    match &j.term {
        Jmp::Branch(target) => json!({"tid": t, "k": "branch", "target": tid_to(target)}),
        Jmp::BranchInd(e) => json!({"tid": t, "k": "branchind", "target": expr_to(e)}),
        Jmp::CBranch { target, condition } => json!({"tid": t, "k": "cbranch", "target": tid_to(target), "cond": expr_to(condition)}),
        Jmp::Call { target, return_ } => json!({"tid": t, "k": "call", "target": tid_to(target), "ret": opt_tid_to(return_)}),
        Jmp::CallInd { target, return_ } => json!({"tid": t, "k": "callind", "target": expr_to(target), "ret": opt_tid_to(return_)}),
        Jmp::Return(e) => json!({"tid": t, "k": "return", "target": expr_to(e)}),
        Jmp::CallOther { description, return_ } => json!({"tid": t, "k": "callother", "desc": description, "ret": opt_tid_to(return_)}),
    }
}

pub fn blk_from(v: &Value) -> Term<Blk> {
    Term {
        tid: tid_from(&v["tid"]),
        term: Blk {
            defs: v["defs"].as_array().unwrap().iter().map(def_from).collect(),
            jmps: v["jmps"].as_array().unwrap().iter().map(jmp_from).collect(),
            indirect_jmp_targets: v["ijt"].as_array().map(|a| a.iter().map(tid_from).collect()).unwrap_or_default(),
        },
    }
}

pub fn blk_to(b: &Term<Blk>) -> Value {
    json!({
        "tid": tid_to(&b.tid),
        "defs": b.term.defs.iter().map(def_to).collect::<Vec<_>>(),
        "jmps": b.term.jmps.iter().map(jmp_to).collect::<Vec<_>>(),
        "ijt": b.term.indirect_jmp_targets.iter().map(tid_to).collect::<Vec<_>>(),
    })
}

pub fn project_from(v: &Value) -> Project {
    let mut subs = BTreeMap::new();
    for s in v["subs"].as_array().unwrap() {
        let sub = Term {
            tid: tid_from(&s["tid"]),
            term: Sub {
                name: s["name"].as_str().unwrap_or("f").to_string(),
                blocks: s["blocks"].as_array().unwrap().iter().map(blk_from).collect(),
                calling_convention: s["cconv"].as_str().map(|x| x.to_string()),
            },
        };
        subs.insert(sub.tid.clone(), sub);
    }
    let mut extern_symbols = BTreeMap::new();
    for e in v["externs"].as_array().map(|a| a.to_vec()).unwrap_or_default() {
        let sym = ExternSymbol {
            tid: tid_from(&e["tid"]),
            addresses: vec![],
            name: e["name"].as_str().unwrap().to_string(),
            calling_convention: e["cconv"].as_str().map(|x| x.to_string()),
            parameters: e["params"].as_array().map(|a| a.iter().map(|p| Arg::Register { expr: Expression::Var(var_from(p)), data_type: None }).collect()).unwrap_or_default(),
            return_values: e["rets"].as_array().map(|a| a.iter().map(|p| Arg::Register { expr: Expression::Var(var_from(p)), data_type: None }).collect()).unwrap_or_default(),
            no_return: e["no_return"].as_bool().unwrap_or(false),
            has_var_args: e["var_args"].as_bool().unwrap_or(false),
        };
        extern_symbols.insert(sym.tid.clone(), sym);
    }
    let mut calling_conventions = BTreeMap::new();
    for c in v["cconvs"].as_array().map(|a| a.to_vec()).unwrap_or_default() {
        let vars = |k: &str| -> Vec<Variable> { c[k].as_array().map(|a| a.iter().map(var_from).collect()).unwrap_or_default() };
        let cc = CallingConvention {
            name: c["name"].as_str().unwrap().to_string(),
            integer_parameter_register: vars("params"),
            float_parameter_register: vec![],
            integer_return_register: vars("rets"),
            float_return_register: vec![],
            callee_saved_register: vars("callee_saved"),
        };
        calling_conventions.insert(cc.name.clone(), cc);
    }
    let register_set: BTreeSet<Variable> = v["regs"].as_array().unwrap().iter().map(var_from).collect();
    let sp = var_from(&v["sp"]);
    let psize = sp.size;
    Project {
        program: Term {
            tid: Tid::new("prog"),
            term: Program {
                subs,
                extern_symbols,
                entry_points: v["entry_points"].as_array().map(|a| a.iter().map(tid_from).collect()).unwrap_or_default(),
                address_base_offset: 0,
            },
        },
        cpu_architecture: v["arch"].as_str().unwrap_or("x86_64").to_string(),
        stack_pointer_register: sp,
        calling_conventions,
        register_set,
        datatype_properties: DatatypeProperties {
            char_size: ByteSize::new(1),
            double_size: ByteSize::new(8),
            float_size: ByteSize::new(4),
            integer_size: ByteSize::new(4),
            long_double_size: ByteSize::new(8),
            long_long_size: ByteSize::new(8),
            long_size: psize,
            pointer_size: psize,
            short_size: ByteSize::new(2),
        },
        runtime_memory_image: RuntimeMemoryImage::empty(v["little_endian"].as_bool().unwrap_or(true)),
    }
}

pub fn project_to(p: &Project) -> Value {
    let subs: Vec<Value> = p
        .program
        .term
        .subs
        .values()
        .map(|s| {
            json!({
                "tid": tid_to(&s.tid),
                "name": s.term.name,
                "cconv": s.term.calling_convention,
                "blocks": s.term.blocks.iter().map(blk_to).collect::<Vec<_>>(),
            })
        })
        .collect();
    let externs: Vec<Value> = p
        .program
        .term
        .extern_symbols
        .values()
        .map(|e| json!({"tid": tid_to(&e.tid), "name": e.name, "cconv": e.calling_convention, "no_return": e.no_return}))
        .collect();
    json!({
        "subs": subs,
        "externs": externs,
        "arch": p.cpu_architecture,
        "sp": var_to(&p.stack_pointer_register),
        "regs": p.register_set.iter().map(var_to).collect::<Vec<_>>(),
    })
}
