use crate::common::*;
use crate::{chk, cov};
use cwe_checker_lib::abstract_domain::{BitvectorDomain, RegisterDomain, SizedDomain};
use cwe_checker_lib::intermediate_representation::*;

pub fn p1<S: Src>(s: &mut S) {
    let a = s.u8() as u64;
    let b = s.u8() as u64;
    let da = BitvectorDomain::Value(mk(8, a));
    let db = BitvectorDomain::Value(mk(8, b));
    match da.bin_op(BinOpType::IntXOr, &db) {
        BitvectorDomain::Value(v) => chk!(s, bv_is(&v, 8, a ^ b), "p1 value"),
        BitvectorDomain::Top(_) => chk!(s, false, "p1 top"),
    }
}
pub fn p2<S: Src>(s: &mut S) {
    let a = s.u8() as u64;
    let b = s.u8() as u64;
    let da = BitvectorDomain::Value(mk(8, a));
    let db = BitvectorDomain::Value(mk(8, b));
    let r = da.bin_op(BinOpType::IntXOr, &db);
    chk!(s, !cwe_checker_lib::abstract_domain::AbstractDomain::is_top(&r), "p2 not top");
    std::mem::forget(r);
    std::mem::forget((da, db));
}
crate::harnesses! {
    probe_p1[4] => p1();
    probe_p2[4] => p2();
    probe_p3[4] => p3();
    probe_p4[4] => p4();
}
pub fn p3<S: Src>(s: &mut S) {
    let a = s.u8() as u64;
    let b = s.u8() as u64;
    match mk(8, a).bin_op(BinOpType::IntXOr, &mk(8, b)) {
        Ok(v) => chk!(s, bv_is(&v, 8, a ^ b), "p3 value"),
        Err(e) => { std::mem::forget(e); chk!(s, false, "p3 err") }
    }
}
pub fn p4<S: Src>(s: &mut S) {
    let a = s.u8() as u64;
    let b = s.u8() as u64;
    let v = mk(8, a) ^ &mk(8, b);
    chk!(s, bv_is(&v, 8, a ^ b), "p4 value");
}
