//! C03 — merging abstract values over-approximates both inputs and is stable (engine K part).
//!
//! Decided here: known-bitvector values, strided intervals without widening (`Interval::signed_merge`),
//! interval domains with widening (`IntervalDomain::merge`, hint-free and with hints through the verif hook),
//! taint values. Pointer/value sets with identifiers, keyed maps and memory regions are decided by the
//! result-validation engine (BTreeMap-backed containers are out of reach of CBMC here).

use crate::c02::{any_iv, any_member, read_back, ref_contains, to_interval, wf_iv, IV};
use crate::common::*;
use crate::{chk, cov};
use cwe_checker_lib::abstract_domain::{AbstractDomain, BitvectorDomain, Interval, IntervalDomain, SizedDomain, TryToInterval};
use cwe_checker_lib::analysis::taint::Taint;
use cwe_checker_lib::intermediate_representation::*;

/// BitvectorDomain::merge for (known, known) operands (one wrapper call per harness: the enum wrapper is expensive for CBMC).
pub fn bitvector_vv<S: Src>(s: &mut S, bits: u32) {
    let a = s.uw(bits);
    let b = s.uw(bits);
    s.note(&|| format!("merge Value({:#x}) with Value({:#x}) ({} bits)", a, b, bits));
    let da = BitvectorDomain::Value(mk(bits, a));
    let db = BitvectorDomain::Value(mk(bits, b));
    let m = da.merge(&db);
    match &m {
        BitvectorDomain::Value(v) => {
            chk!(s, a == b, "C03 bitvector: merge of two different known values must not stay a known value");
            chk!(s, *v == mk(bits, a), "C03 bitvector: merging a value with itself must represent the same set");
            cov!(s, true, "equal-values case reached");
        }
        BitvectorDomain::Top(sz) => {
            chk!(s, u64::from(*sz) * 8 == bits as u64, "C03 bitvector: merged Top has the wrong width");
            chk!(s, a != b, "C03 bitvector: merging a value with itself must represent the same set");
            cov!(s, true, "different-values case reached");
        }
    }
    std::mem::forget((da, db, m));
}

/// merge_with agrees with merge (known, known).
pub fn bitvector_merge_with<S: Src>(s: &mut S, bits: u32) {
    let a = s.uw(bits);
    let b = s.uw(bits);
    s.note(&|| format!("merge_with Value({:#x}) with Value({:#x}) ({} bits)", a, b, bits));
    let db = BitvectorDomain::Value(mk(bits, b));
    let mut mw = BitvectorDomain::Value(mk(bits, a));
    mw.merge_with(&db);
    match &mw {
        BitvectorDomain::Value(v) => chk!(s, a == b && *v == mk(bits, a), "C03 bitvector: merge_with differs from merge"),
        BitvectorDomain::Top(sz) => chk!(s, a != b && u64::from(*sz) * 8 == bits as u64, "C03 bitvector: merge_with differs from merge"),
    }
    cov!(s, true, "end of harness reached");
    std::mem::forget((db, mw));
}

/// Merging Top (the result of merging two different values) with an absorbed input stays Top.
pub fn bitvector_stable<S: Src>(s: &mut S, bits: u32) {
    let a = s.uw(bits);
    let da = BitvectorDomain::Value(mk(bits, a));
    let t = BitvectorDomain::Top(ByteSize::new(bits as u64 / 8));
    let m2 = t.merge(&da);
    chk!(s, matches!(m2, BitvectorDomain::Top(_)), "C03 bitvector: merging the result with an absorbed input changed it");
    cov!(s, true, "end of harness reached");
    std::mem::forget((da, t, m2));
}

/// BitvectorDomain::merge with a Top operand.
pub fn bitvector_top<S: Src>(s: &mut S, bits: u32) {
    let a = s.uw(bits);
    let da = BitvectorDomain::Value(mk(bits, a));
    let t = BitvectorDomain::Top(ByteSize::new(bits as u64 / 8));
    chk!(s, da.merge(&t).is_top() && t.merge(&da).is_top() && t.merge(&t).is_top(), "C03 bitvector: merge with Top must be Top");
    chk!(s, da.merge(&t).bytesize() == ByteSize::new(bits as u64 / 8), "C03 bitvector: merged Top has the wrong width");
    cov!(s, true, "end of harness reached");
    std::mem::forget((da, t));
}

/// Taint merge (read as a may-flag: Tainted absorbs Top).
pub fn taint<S: Src>(s: &mut S) {
    let (ta, tb) = (s.bool(), s.bool());
    let size = ByteSize::new(8);
    let a = if ta { Taint::Tainted(size) } else { Taint::Top(size) };
    let b = if tb { Taint::Tainted(size) } else { Taint::Top(size) };
    let m = a.merge(&b);
    chk!(s, matches!(m, Taint::Tainted(_)) == (ta || tb), "C03 taint: merge is not the may-join of both inputs");
    chk!(s, m.bytesize() == size, "C03 taint: merged value has the wrong size");
    let mut mw = a;
    mw.merge_with(&b);
    chk!(s, mw == m, "C03 taint: merge_with differs from merge");
    chk!(s, m.merge(&a) == m && m.merge(&b) == m && a.merge(&a) == a, "C03 taint: merge is not stable / idempotent");
    cov!(s, ta && !tb, "mixed case reached");
}

fn same_set(a: &Interval, b: &Interval, _bits: u32) -> bool {
    a.start == b.start && a.end == b.end && a.stride == b.stride
}

/// Interval::signed_merge (no widening).
pub fn interval_merge<S: Src>(s: &mut S, bits: u32, max_stride: u64) {
    let a = any_iv(s, bits, max_stride);
    let b = any_iv(s, bits, max_stride);
    let v = sext(s.uw(bits), bits);
    s.note(&|| format!("A=[{},{}]/{} B=[{},{}]/{} v={} ({} bits)", a.s, a.e, a.stride, b.s, b.e, b.stride, v, bits));
    let (ia, ib) = (to_interval(&a), to_interval(&b));
    let m = ia.signed_merge(&ib);
    match read_back(s, &m, bits) {
        None => chk!(s, false, "C03 interval: merged interval has the wrong width"),
        Some(mm) => {
            chk!(s, wf_iv(&mm), "C03 interval: merged interval is not well-formed");
            if ref_contains(&a, v) || ref_contains(&b, v) {
                chk!(s, ref_contains(&mm, v), "C03 interval: a member of an input is not a member of the merge");
            }
            // stability: merging the result (rebuilt with a constant width) with an absorbed input gives the same set
            let again = to_interval(&mm).signed_merge(&ia);
            match read_back(s, &again, bits) {
                None => chk!(s, false, "C03 interval: merged interval has the wrong width"),
                Some(ag) => chk!(s, ag.s == mm.s && ag.e == mm.e && ag.stride == mm.stride, "C03 interval: merging the result with an absorbed input enlarged it"),
            }
            cov!(s, mm.stride > 1 && a.stride > 1 && b.stride > 1 && a.s != b.s, "strided merge of two strided intervals reached");
        }
    }
}

fn dom_contains<S: Src>(s: &mut S, d: &IntervalDomain, v: i64, bits: u32) -> bool {
    let (i, _, _, _) = d.verif_parts();
    match read_back(s, i, bits) {
        // Top is [MIN, MAX] with stride 1 and passes the membership test like any other interval
        Some(m) => ref_contains(&m, v),
        None => false,
    }
}

/// IntervalDomain::merge (signed_merge_and_widen) without widening hints.
pub fn domain_merge_nohints<S: Src>(s: &mut S, bits: u32, max_stride: u64) {
    let a = any_iv(s, bits, max_stride);
    let b = any_iv(s, bits, max_stride);
    let v = sext(s.uw(bits), bits);
    s.note(&|| format!("A=[{},{}]/{} B=[{},{}]/{} v={} ({} bits, no hints)", a.s, a.e, a.stride, b.s, b.e, b.stride, v, bits));
    let da: IntervalDomain = to_interval(&a).into();
    let db: IntervalDomain = to_interval(&b).into();
    let m = da.merge(&db);
    if ref_contains(&a, v) || ref_contains(&b, v) {
        chk!(s, dom_contains(s, &m, v, bits), "C03 interval domain: a member of an input is not a member of the merge");
    }
    chk!(s, m.bytesize() == ByteSize::new(bits as u64 / 8), "C03 interval domain: merged value has the wrong width");
    let again = m.merge(&da);
    chk!(s, again.equal_as_value_sets(&m), "C03 interval domain: merging the result with an absorbed input enlarged it");
    let idem = da.merge(&da);
    chk!(s, idem.equal_as_value_sets(&da), "C03 interval domain: merging a value with itself changed its represented set");
    cov!(s, !m.is_top() && a.e < b.s, "non-top merge of disjoint intervals reached");
    std::mem::forget((da, db, m, again, idem));
}

/// IntervalDomain::merge with widening hints on both operands (hint presence concrete, hint values symbolic).
pub fn domain_merge_hints<S: Src>(s: &mut S, bits: u32, max_stride: u64, lower: bool, upper: bool) {
    let a = any_iv(s, bits, max_stride);
    let b = any_iv(s, bits, max_stride);
    let v = sext(s.uw(bits), bits);
    let (la, ua, lb, ub) = (sext(s.uw(bits), bits), sext(s.uw(bits), bits), sext(s.uw(bits), bits), sext(s.uw(bits), bits));
    let (da_, db_) = (s.u8() as u64, s.u8() as u64);
    // documented hint invariant: lower hint below the interval start, upper hint above its end
    s.assume(la < a.s && ua > a.e && lb < b.s && ub > b.e);
    s.note(&|| format!("A=[{},{}]/{} hints({},{}) delay {} ; B=[{},{}]/{} hints({},{}) delay {} ; v={}", a.s, a.e, a.stride, la, ua, da_, b.s, b.e, b.stride, lb, ub, db_, v));
    let h = |x: i64, on: bool| if on { Some(mk(bits, x as u64)) } else { None };
    let da = IntervalDomain::verif_from_parts(to_interval(&a), h(la, lower), h(ua, upper), da_);
    let db = IntervalDomain::verif_from_parts(to_interval(&b), h(lb, lower), h(ub, upper), db_);
    let m = da.merge(&db);
    if ref_contains(&a, v) || ref_contains(&b, v) {
        chk!(s, dom_contains(s, &m, v, bits), "C03 interval domain (hints): a member of an input is not a member of the widened merge");
    }
    cov!(s, !m.is_top() && !m.equal_as_value_sets(&da) && !m.equal_as_value_sets(&db), "proper widening or merge reached");
    std::mem::forget((da, db, m));
}

crate::harnesses! {
    // the IntervalDomain-level harnesses (stretch) run into the width blow-up described in DESIGN.md 8.2 (10-20 GB each);
    // that layer is decided by the result-validation part of the check
    @quick c03_bitvector_vv_8[4] => bitvector_vv(8);
    c03_bitvector_vv_64[4] => bitvector_vv(64);
    @quick c03_bitvector_merge_with_8[4] => bitvector_merge_with(8);
    @quick c03_bitvector_stable_64[4] => bitvector_stable(64);
    @quick c03_bitvector_top_32[4] => bitvector_top(32);
    @quick c03_taint[4] => taint();
    @quick c03_interval_merge_8_s15[4] => interval_merge(8, 15);
    c03_interval_merge_8[4] => interval_merge(8, 255);
    @stretch c03_interval_merge_64_s16[4] => interval_merge(64, 16);
    @stretch c03_domain_merge_nohints_8[4] => domain_merge_nohints(8, 255);
    @stretch c03_domain_merge_lower_8[4] => domain_merge_hints(8, 255, true, false);
    @stretch c03_domain_merge_upper_8[4] => domain_merge_hints(8, 255, false, true);
    @stretch c03_domain_merge_both_8[4] => domain_merge_hints(8, 255, true, true);
}
