//! C04 — conditional refinement never removes feasible values (engine K part: `Interval::signed_intersect`,
//! the residue-class computation and extended gcd it is built on). The `add_*_bound` refinements of
//! `IntervalDomain` and `DataDomain` are decided by the result-validation engine.

use crate::c02::{any_iv, read_back, ref_contains, to_interval, wf_iv};
use crate::common::*;
use crate::{chk, cov};
use cwe_checker_lib::abstract_domain::{IntervalDomain, SpecializeByConditional, TryToInterval};
use cwe_checker_lib::intermediate_representation::*;

/// Interval::signed_intersect
pub fn intersect<S: Src>(s: &mut S, bits: u32, max_stride: u64) {
    let a = any_iv(s, bits, max_stride);
    let b = any_iv(s, bits, max_stride);
    let v = sext(s.uw(bits), bits);
    s.note(&|| format!("A=[{},{}]/{} B=[{},{}]/{} v={} ({} bits)", a.s, a.e, a.stride, b.s, b.e, b.stride, v, bits));
    let both = ref_contains(&a, v) && ref_contains(&b, v);
    match to_interval(&a).signed_intersect(&to_interval(&b)) {
        Ok(r) => {
            match read_back(s, &r, bits) {
                None => chk!(s, false, "C04 intersect: result interval has the wrong width"),
                Some(m) => {
                    chk!(s, wf_iv(&m), "C04 intersect: result interval is not well-formed");
                    if both {
                        chk!(s, ref_contains(&m, v), "C04 intersect: a common member of both intervals was removed");
                    }
                }
            }
            cov!(s, both && r.stride > 1 && a.stride != b.stride, "strided intersection of differently strided intervals reached");
            std::mem::forget(r);
        }
        Err(e) => {
            std::mem::forget(e);
            chk!(s, !both, "C04 intersect: reported empty although both intervals share a member");
            cov!(s, a.s <= b.e && b.s <= a.e, "empty intersection of overlapping ranges (residue classes disjoint) reached");
        }
    }
}

/// Arbitrary well-formed interval of width `bits` with the given *concrete* stride (0 = singleton).
fn any_iv_with_stride<S: Src>(s: &mut S, bits: u32, stride: u64) -> crate::c02::IV {
    let st = sext(s.uw(bits), bits);
    if stride == 0 {
        return crate::c02::IV { s: st, e: st, stride: 0, bits };
    }
    let en = sext(s.uw(bits), bits);
    s.assume(st < en);
    s.assume(crate::c02::umod(en.wrapping_sub(st) as u64, stride, bits) == 0);
    crate::c02::IV { s: st, e: en, stride, bits }
}

/// Interval::signed_intersect for one row of concrete stride pairs (sa, sb_min..=sb_max): with concrete strides the extended
/// Euclid, the gcd and the lcm are constants for the solver; start, end and the member stay fully symbolic.
pub fn intersect_row<S: Src>(s: &mut S, bits: u32, sa: u64, sb_min: u64, sb_max: u64) {
    let mut sb = sb_min;
    while sb <= sb_max {
        let a = any_iv_with_stride(s, bits, sa);
        let b = any_iv_with_stride(s, bits, sb);
        let v = sext(s.uw(bits), bits);
        s.note(&|| format!("A=[{},{}]/{} B=[{},{}]/{} v={} ({} bits)", a.s, a.e, a.stride, b.s, b.e, b.stride, v, bits));
        let both = ref_contains(&a, v) && ref_contains(&b, v);
        match to_interval(&a).signed_intersect(&to_interval(&b)) {
            Ok(r) => {
                match read_back(s, &r, bits) {
                    None => chk!(s, false, "C04 intersect: result interval has the wrong width"),
                    Some(m) => {
                        chk!(s, wf_iv(&m), "C04 intersect: result interval is not well-formed");
                        if both {
                            chk!(s, ref_contains(&m, v), "C04 intersect: a common member of both intervals was removed");
                        }
                    }
                }
                std::mem::forget(r);
            }
            Err(e) => {
                std::mem::forget(e);
                chk!(s, !both, "C04 intersect: reported empty although both intervals share a member");
            }
        }
        sb += 1;
    }
    cov!(s, true, "all stride pairs of the row executed");
}

/// IntervalDomain::add_not_equal_bound without hints (the one refinement that does not round the bound through i128 arithmetic first).
pub fn not_equal<S: Src>(s: &mut S, bits: u32, max_stride: u64) {
    let a = any_iv(s, bits, max_stride);
    let bound = sext(s.uw(bits), bits);
    let v = sext(s.uw(bits), bits);
    s.note(&|| format!("A=[{},{}]/{} bound={} v={} ({} bits)", a.s, a.e, a.stride, bound, v, bits));
    let sel = ref_contains(&a, v) && v != bound;
    let d: IntervalDomain = to_interval(&a).into();
    match d.add_not_equal_bound(&mk(bits, bound as u64)) {
        Ok(r) => {
            if sel {
                let (i, _, _, _) = r.verif_parts();
                match read_back(s, i, bits) {
                    Some(m) => chk!(s, ref_contains(&m, v), "C04 not-equal: a member different from the bound was removed"),
                    None => chk!(s, false, "C04 not-equal: result interval has the wrong width"),
                }
            }
            cov!(s, a.stride > 1 && bound == a.e, "bound equal to the end of a strided interval reached");
            std::mem::forget(r);
        }
        Err(e) => {
            std::mem::forget(e);
            chk!(s, !sel, "C04 not-equal: reported unsatisfiable although a member differs from the bound");
        }
    }
}

crate::harnesses! {
    // quick: four stride pairs (gcd > 1 twice, coprime, singleton operand); bases, ends and the member are symbolic
    @quick c04_pair_8_8_10[16] => intersect_row(8, 8, 10, 10);
    @quick c04_pair_8_6_4[16] => intersect_row(8, 6, 4, 4);
    @quick c04_pair_8_5_3[16] => intersect_row(8, 5, 3, 3);
    @quick c04_pair_8_7_0[16] => intersect_row(8, 7, 0, 0);
    // thorough: every stride pair (sa, sb) in 0..=10 x 0..=10 (121 pairs, 1.5-4 min each), one harness per half row
    c04_row_8_0_lo[16] => intersect_row(8, 0, 0, 5);
    c04_row_8_0_hi[16] => intersect_row(8, 0, 6, 10);
    c04_row_8_1_lo[16] => intersect_row(8, 1, 0, 5);
    c04_row_8_1_hi[16] => intersect_row(8, 1, 6, 10);
    c04_row_8_2_lo[16] => intersect_row(8, 2, 0, 5);
    c04_row_8_2_hi[16] => intersect_row(8, 2, 6, 10);
    c04_row_8_3_lo[16] => intersect_row(8, 3, 0, 5);
    c04_row_8_3_hi[16] => intersect_row(8, 3, 6, 10);
    c04_row_8_4_lo[16] => intersect_row(8, 4, 0, 5);
    c04_row_8_4_hi[16] => intersect_row(8, 4, 6, 10);
    c04_row_8_5_lo[16] => intersect_row(8, 5, 0, 5);
    c04_row_8_5_hi[16] => intersect_row(8, 5, 6, 10);
    c04_row_8_6_lo[16] => intersect_row(8, 6, 0, 5);
    c04_row_8_6_hi[16] => intersect_row(8, 6, 6, 10);
    c04_row_8_7_lo[16] => intersect_row(8, 7, 0, 5);
    c04_row_8_7_hi[16] => intersect_row(8, 7, 6, 10);
    c04_row_8_8_lo[16] => intersect_row(8, 8, 0, 5);
    c04_row_8_8_hi[16] => intersect_row(8, 8, 6, 10);
    c04_row_8_9_lo[16] => intersect_row(8, 9, 0, 5);
    c04_row_8_9_hi[16] => intersect_row(8, 9, 6, 10);
    c04_row_8_10_lo[16] => intersect_row(8, 10, 0, 5);
    c04_row_8_10_hi[16] => intersect_row(8, 10, 6, 10);
    // fully symbolic strides: the i128 residue-class arithmetic with symbolic divisors makes these proofs very long
    @stretch c04_intersect_8_s15[16] => intersect(8, 15);
    @stretch c04_intersect_8_s3[16] => intersect(8, 3);
}
