//! C04 — conditional refinement never removes feasible values (engine K part: `Interval::signed_intersect`,
//! the residue-class computation and extended gcd it is built on). The `add_*_bound` refinements of
//! `IntervalDomain` and `DataDomain` are decided by the result-validation engine.

use crate::c02::{any_iv, read_back, ref_contains, to_interval, wf_iv};
use crate::common::*;
use crate::{chk, cov};
use cwe_checker_lib::abstract_domain::{IntervalDomain, SpecializeByConditional, TryToInterval};
use cwe_checker_lib::intermediate_representation::*;

/// Interval::signed_intersect
pub fn intersect<S: Src>(s: &mut S, bits: u32, max_stride: u64) {
    let a = any_iv(s, bits, max_stride);
    let b = any_iv(s, bits, max_stride);
    let v = sext(s.uw(bits), bits);
    s.note(&|| format!("A=[{},{}]/{} B=[{},{}]/{} v={} ({} bits)", a.s, a.e, a.stride, b.s, b.e, b.stride, v, bits));
    let both = ref_contains(&a, v) && ref_contains(&b, v);
    match to_interval(&a).signed_intersect(&to_interval(&b)) {
        Ok(r) => {
            match read_back(s, &r, bits) {
                None => chk!(s, false, "C04 intersect: result interval has the wrong width"),
                Some(m) => {
                    chk!(s, wf_iv(&m), "C04 intersect: result interval is not well-formed");
                    if both {
                        chk!(s, ref_contains(&m, v), "C04 intersect: a common member of both intervals was removed");
                    }
                }
            }
            cov!(s, both && r.stride > 1 && a.stride != b.stride, "strided intersection of differently strided intervals reached");
            std::mem::forget(r);
        }
        Err(e) => {
            std::mem::forget(e);
            chk!(s, !both, "C04 intersect: reported empty although both intervals share a member");
            cov!(s, a.s <= b.e && b.s <= a.e, "empty intersection of overlapping ranges (residue classes disjoint) reached");
        }
    }
}

/// IntervalDomain::add_not_equal_bound without hints (the one refinement that does not round the bound through i128 arithmetic first).
pub fn not_equal<S: Src>(s: &mut S, bits: u32, max_stride: u64) {
    let a = any_iv(s, bits, max_stride);
    let bound = sext(s.uw(bits), bits);
    let v = sext(s.uw(bits), bits);
    s.note(&|| format!("A=[{},{}]/{} bound={} v={} ({} bits)", a.s, a.e, a.stride, bound, v, bits));
    let sel = ref_contains(&a, v) && v != bound;
    let d: IntervalDomain = to_interval(&a).into();
    match d.add_not_equal_bound(&mk(bits, bound as u64)) {
        Ok(r) => {
            if sel {
                let (i, _, _, _) = r.verif_parts();
                match read_back(s, i, bits) {
                    Some(m) => chk!(s, ref_contains(&m, v), "C04 not-equal: a member different from the bound was removed"),
                    None => chk!(s, false, "C04 not-equal: result interval has the wrong width"),
                }
            }
            cov!(s, a.stride > 1 && bound == a.e, "bound equal to the end of a strided interval reached");
            std::mem::forget(r);
        }
        Err(e) => {
            std::mem::forget(e);
            chk!(s, !sel, "C04 not-equal: reported unsatisfiable although a member differs from the bound");
        }
    }
}

crate::harnesses! {
    // thorough tier only: the i128 residue-class arithmetic makes these proofs long (measured: > 600 s each under load)
    c04_intersect_8_s15[16] => intersect(8, 15);
    c04_intersect_8_s3[16] => intersect(8, 3);
}
