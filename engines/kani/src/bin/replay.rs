//! Native replay of a Kani counterexample against the real library (no Kani involved).
//! usage: replay <harness> <hex bytes of value 1> <hex bytes of value 2> ...   (an empty value is "-")
//! exit 0: all checks hold on this input; 1: a check fails (prints FAILED-CHECK lines); 3: assumption violated / not replayable.
#[cfg(kani)]
fn main() {}

#[cfg(not(kani))]
fn main() {
    use std::panic;
    use vk::common::{AssumeViolated, ReplaySrc};
    let args: Vec<String> = std::env::args().skip(1).collect();
    if args.is_empty() || args[0] == "--list" {
        for (n, _) in vk::registry() {
            println!("{}", n);
        }
        return;
    }
    let name = &args[0];
    let vals: Vec<Vec<u8>> = args[1..]
        .iter()
        .map(|a| {
            if a == "-" {
                Vec::new()
            } else {
                (0..a.len() / 2)
                    .map(|i| u8::from_str_radix(&a[2 * i..2 * i + 2], 16).unwrap())
                    .collect()
            }
        })
        .collect();
    let f = match vk::registry().into_iter().find(|(n, _)| n == name) {
        Some((_, f)) => f,
        None => {
            eprintln!("unknown harness {}", name);
            std::process::exit(3);
        }
    };
    let mut src = ReplaySrc::new(vals);
    panic::set_hook(Box::new(|_| {}));
    let res = panic::catch_unwind(panic::AssertUnwindSafe(|| f(&mut src)));
    for n in &src.notes {
        println!("NOTE {}", n);
    }
    match res {
        Ok(()) => {}
        Err(p) => {
            if p.downcast_ref::<AssumeViolated>().is_some() {
                println!("ASSUMPTION-VIOLATED");
                std::process::exit(3);
            }
            let msg = p
                .downcast_ref::<String>()
                .cloned()
                .or_else(|| p.downcast_ref::<&str>().map(|s| s.to_string()))
                .unwrap_or_default();
            println!("FAILED-CHECK panic in the code under verification: {}", msg);
            std::process::exit(1);
        }
    }
    println!("checks_evaluated {}", src.checks_evaluated);
    if src.failed.is_empty() {
        println!("ALL-CHECKS-HOLD");
    } else {
        for l in &src.failed {
            println!("FAILED-CHECK {}", l);
        }
        std::process::exit(1);
    }
}
