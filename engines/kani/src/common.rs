//! Shared plumbing: value sources (Kani / native replay), stubs, reference helpers.

use cwe_checker_lib::intermediate_representation::*;

/// Source of "arbitrary" values. Under Kani each call is a fresh solver variable;
/// in the native replay binary the values come from the counterexample Kani printed.
pub trait Src {
    fn u8(&mut self) -> u8;
    fn u16(&mut self) -> u16;
    fn u32(&mut self) -> u32;
    fn u64(&mut self) -> u64;
    fn bool(&mut self) -> bool;
    /// Precondition. Kani: `kani::assume`. Replay: a violated assumption aborts the replay as invalid.
    fn assume(&mut self, c: bool);
    /// The property assertion.
    fn check(&mut self, c: bool, label: &'static str);
    /// Vacuity witness: must be reachable with `c` true.
    fn cover(&mut self, c: bool, label: &'static str);
    /// Free-form note only recorded in replay mode (describes the concrete case).
    fn note(&mut self, _f: &dyn Fn() -> String) {}

    fn i8(&mut self) -> i8 {
        self.u8() as i8
    }
    fn i64(&mut self) -> i64 {
        self.u64() as i64
    }
    /// value of `bits` width carried in a u64 (one `any` of exactly that width, so replay order is stable).
    fn uw(&mut self, bits: u32) -> u64 {
        match bits {
            8 => self.u8() as u64,
            16 => self.u16() as u64,
            32 => self.u32() as u64,
            64 => self.u64(),
            _ => unreachable!(),
        }
    }
    /// choose an index < n
    fn choose(&mut self, n: u8) -> u8 {
        let i = self.u8();
        self.assume(i < n);
        i
    }
}

#[cfg(kani)]
pub struct KaniSrc;

#[cfg(kani)]
impl Src for KaniSrc {
    fn u8(&mut self) -> u8 {
        kani::any()
    }
    fn u16(&mut self) -> u16 {
        kani::any()
    }
    fn u32(&mut self) -> u32 {
        kani::any()
    }
    fn u64(&mut self) -> u64 {
        kani::any()
    }
    fn bool(&mut self) -> bool {
        kani::any()
    }
    fn assume(&mut self, c: bool) {
        kani::assume(c)
    }
    fn check(&mut self, _c: bool, _label: &'static str) {
        unreachable!() // harness bodies use the chk!/cov! macros (Kani needs literal messages)
    }
    fn cover(&mut self, _c: bool, _label: &'static str) {
        unreachable!()
    }
}

/// Marker payload for a violated assumption during native replay.
pub struct AssumeViolated;

/// Replay source: consumes the byte vectors printed by `--concrete-playback=print` in order.
pub struct ReplaySrc {
    pub vals: std::collections::VecDeque<Vec<u8>>,
    pub failed: Vec<&'static str>,
    pub notes: Vec<String>,
    pub checks_evaluated: usize,
}

impl ReplaySrc {
    pub fn new(vals: Vec<Vec<u8>>) -> Self {
        ReplaySrc {
            vals: vals.into(),
            failed: Vec::new(),
            notes: Vec::new(),
            checks_evaluated: 0,
        }
    }
    fn next(&mut self, n: usize) -> u64 {
        let v = match self.vals.pop_front() {
            Some(v) => v,
            None => std::panic::panic_any(AssumeViolated),
        };
        if v.len() != n {
            std::panic::panic_any(AssumeViolated);
        }
        let mut x = 0u64;
        for (i, b) in v.iter().enumerate() {
            x |= (*b as u64) << (8 * i);
        }
        x
    }
}

impl Src for ReplaySrc {
    fn u8(&mut self) -> u8 {
        self.next(1) as u8
    }
    fn u16(&mut self) -> u16 {
        self.next(2) as u16
    }
    fn u32(&mut self) -> u32 {
        self.next(4) as u32
    }
    fn u64(&mut self) -> u64 {
        self.next(8)
    }
    fn bool(&mut self) -> bool {
        self.next(1) != 0
    }
    fn assume(&mut self, c: bool) {
        if !c {
            std::panic::panic_any(AssumeViolated);
        }
    }
    fn check(&mut self, c: bool, label: &'static str) {
        self.checks_evaluated += 1;
        if !c {
            self.failed.push(label);
        }
    }
    fn cover(&mut self, _c: bool, _label: &'static str) {}
    fn note(&mut self, f: &dyn Fn() -> String) {
        self.notes.push(f());
    }
}

// ---------------------------------------------------------------- stubs (Kani only)

#[cfg(kani)]
pub mod stubs {
    pub fn fmt_stub(_args: std::fmt::Arguments<'_>) -> String {
        String::new()
    }
    pub fn request_ref_stub<'a, T: ?Sized + 'static>(
        _err: &'a (impl std::error::Error + ?Sized),
    ) -> Option<&'a T> {
        None
    }
    pub fn anyhow_drop_stub(_e: &mut ::anyhow::Error) {}
    pub fn bt_stub() -> std::backtrace::Backtrace {
        std::backtrace::Backtrace::disabled()
    }
}

/// Property assertion: `kani::assert` under Kani, recorded check in native replay.
#[macro_export]
macro_rules! chk {
    ($s:expr, $c:expr, $l:expr $(,)?) => {{
        let c__: bool = $c;
        #[cfg(kani)]
        {
            let _ = &$s;
            kani::assert(c__, $l);
        }
        #[cfg(not(kani))]
        {
            $crate::common::Src::check($s, c__, $l);
        }
    }};
}

/// Vacuity witness: `kani::cover` under Kani, ignored in native replay.
#[macro_export]
macro_rules! cov {
    ($s:expr, $c:expr, $l:expr $(,)?) => {{
        let c__: bool = $c;
        #[cfg(kani)]
        {
            let _ = &$s;
            kani::cover(c__, $l);
        }
        #[cfg(not(kani))]
        {
            $crate::common::Src::cover($s, c__, $l);
        }
    }};
}

/// Declare Kani proof harnesses and the matching native-replay registry of a module.
/// `name => body(args...)` runs the generic `body::<S: Src>(&mut s, args...)` under the four standard stubs.
#[macro_export]
macro_rules! harnesses {
    ($( $(@$q:ident)? $name:ident [ $u:literal ] => $f:ident ( $($arg:expr),* ) ; )*) => {
        $( $crate::one_harness!($(@$q)? $name [$u] => $f($($arg),*)); )*
        pub const REPLAY: &[(&str, $crate::common::ReplayFn)] = &[
            $( (stringify!($name), |s: &mut $crate::common::ReplaySrc| $f(s $(, $arg)*)), )*
        ];
    };
}

/// `@quick` harnesses are always compiled; the others (plain and `@stretch`) only with the cargo feature `thorough`
/// (Kani's compile time grows with the number of harnesses in the crate: ~3.5 s each).
/// `[n]` is the loop-unwinding bound of the harness (unwinding assertions are on).
#[macro_export]
macro_rules! one_harness {
    (@quick $name:ident [ $u:literal ] => $f:ident ( $($arg:expr),* )) => {
        #[cfg(kani)]
        #[kani::proof]
        #[kani::unwind($u)]
        #[kani::stub(alloc::fmt::format, $crate::common::stubs::fmt_stub)]
        #[kani::stub(std::backtrace::Backtrace::capture, $crate::common::stubs::bt_stub)]
        #[kani::stub(core::error::request_ref, $crate::common::stubs::request_ref_stub)]
        #[kani::stub(<::anyhow::Error as core::ops::Drop>::drop, $crate::common::stubs::anyhow_drop_stub)]
        pub fn $name() {
            let mut s = $crate::common::KaniSrc;
            $f(&mut s $(, $arg)*);
        }
    };
    (@stretch $name:ident [ $u:literal ] => $f:ident ( $($arg:expr),* )) => {
        // thorough tier; known to exceed the per-harness cap on the reference machine: a time-out is recorded as undecided
        $crate::one_harness!($name [$u] => $f($($arg),*));
    };
    ($name:ident [ $u:literal ] => $f:ident ( $($arg:expr),* )) => {
        #[cfg(all(kani, feature = "thorough"))]
        #[kani::proof]
        #[kani::unwind($u)]
        #[kani::stub(alloc::fmt::format, $crate::common::stubs::fmt_stub)]
        #[kani::stub(std::backtrace::Backtrace::capture, $crate::common::stubs::bt_stub)]
        #[kani::stub(core::error::request_ref, $crate::common::stubs::request_ref_stub)]
        #[kani::stub(<::anyhow::Error as core::ops::Drop>::drop, $crate::common::stubs::anyhow_drop_stub)]
        pub fn $name() {
            let mut s = $crate::common::KaniSrc;
            $f(&mut s $(, $arg)*);
        }
    };
}

/// Registry entry used by the replay binary.
pub type ReplayFn = fn(&mut ReplaySrc);

// ---------------------------------------------------------------- reference helpers

pub fn mask(bits: u32) -> u64 {
    if bits >= 64 {
        u64::MAX
    } else {
        (1u64 << bits) - 1
    }
}

/// sign-extend the low `bits` of v to i64
pub fn sext(v: u64, bits: u32) -> i64 {
    if bits >= 64 {
        v as i64
    } else {
        let sh = 64 - bits;
        ((v << sh) as i64) >> sh
    }
}

/// Build a bitvector of concrete width `bits` (8,16,32,64) from the low bits of v.
pub fn mk(bits: u32, v: u64) -> Bitvector {
    match bits {
        8 => Bitvector::from_u8(v as u8),
        16 => Bitvector::from_u16(v as u16),
        32 => Bitvector::from_u32(v as u32),
        64 => Bitvector::from_u64(v),
        _ => unreachable!(),
    }
}

/// Does `bv` have exactly width `bits` (<= 64) and value `v` (low bits)?
pub fn bv_is(bv: &Bitvector, bits: u32, v: u64) -> bool {
    use apint::Width;
    if bv.width().to_usize() != bits as usize {
        return false;
    }
    match bits {
        8 => bv.resize_to_u8() == v as u8,
        16 => bv.resize_to_u16() == v as u16,
        32 => bv.resize_to_u32() == v as u32,
        _ => bv.resize_to_u64() == v & mask(bits),
    }
}

pub fn bv_bits(bv: &Bitvector) -> u32 {
    use apint::Width;
    bv.width().to_usize() as u32
}

/// Low `bits` bits of a bitvector whose width is known (by the caller) to be `bits`.
/// `bits` must be a concrete value: dispatching on the run-time width would make CBMC explore apint's
/// heap-storage paths whenever the width is not constant-propagated (see DESIGN.md, width blow-up).
pub fn bv_val(bv: &Bitvector, bits: u32) -> u64 {
    match bits {
        8 => bv.resize_to_u8() as u64,
        16 => bv.resize_to_u16() as u64,
        32 => bv.resize_to_u32() as u64,
        _ => bv.resize_to_u64() & mask(bits),
    }
}
