//! C19 — global memory queries agree with the loaded memory image.
//!
//! Two segments of concrete length (per instantiation) with symbolic contents, symbolic base addresses
//! (disjoint, adjacency allowed, either order), symbolic write flags; symbolic query address.
//! Oracle: a direct byte-array model of the property statement.

use crate::common::*;
use crate::{chk, cov};
use cwe_checker_lib::intermediate_representation::*;
use cwe_checker_lib::utils::binary::MemorySegment;

pub struct Img {
    pub img: RuntimeMemoryImage,
    pub bytes: [[u8; 8]; 2],
    pub len: [u64; 2],
    pub base: [u64; 2],
    pub w: [bool; 2],
    pub r: [bool; 2],
}

fn any_bytes<S: Src>(s: &mut S, len: usize, ascii: bool) -> [u8; 8] {
    // straight-line (no loop: the unwinding bound of the harness is reserved for the library's loops)
    let mut b = [0u8; 8];
    macro_rules! one { ($i:expr) => { if len > $i { b[$i] = s.u8(); if ascii { s.assume(b[$i] < 0x80); } } }; }
    one!(0); one!(1); one!(2); one!(3); one!(4); one!(5); one!(6); one!(7);
    b
}

/// Arbitrary two-segment image. `max_base` bounds the base addresses (so that 1- and 4-byte pointers can reach them).
pub fn any_image<S: Src>(s: &mut S, l0: usize, l1: usize, le: bool, ascii: bool, max_base: u64) -> Img {
    let b0 = any_bytes(s, l0, ascii);
    let b1 = any_bytes(s, l1, ascii);
    let base0 = s.u64();
    let base1 = s.u64();
    s.assume(base0 <= max_base && base1 <= max_base);
    // disjoint segments, adjacency allowed, either order in memory
    s.assume(base0 + l0 as u64 <= base1 || base1 + l1 as u64 <= base0);
    let (w0, w1) = (s.bool(), s.bool());
    let (r0, r1) = (s.bool(), s.bool());
    let img = RuntimeMemoryImage {
        memory_segments: vec![
            MemorySegment { bytes: b0[..l0].to_vec(), base_address: base0, read_flag: r0, write_flag: w0, execute_flag: false },
            MemorySegment { bytes: b1[..l1].to_vec(), base_address: base1, read_flag: r1, write_flag: w1, execute_flag: false },
        ],
        is_little_endian: le,
        is_lkm: false,
    };
    s.note(&|| format!("segments: [{:#x},+{}) w={} r={} bytes={:?} ; [{:#x},+{}) w={} r={} bytes={:?} ; little_endian={}",
        base0, l0, w0, r0, &b0[..l0], base1, l1, w1, r1, &b1[..l1], le));
    Img { img, bytes: [b0, b1], len: [l0 as u64, l1 as u64], base: [base0, base1], w: [w0, w1], r: [r0, r1] }
}

/// index of the segment that contains the whole range [addr, addr+size), if any
fn seg_of(i: &Img, addr: u64, size: u64) -> Option<usize> {
    let end = addr as u128 + size as u128;
    if addr >= i.base[0] && end <= (i.base[0] + i.len[0]) as u128 {
        Some(0)
    } else if addr >= i.base[1] && end <= (i.base[1] + i.len[1]) as u128 {
        Some(1)
    } else {
        None
    }
}

/// `read` of `size` bytes (1,2,4,8) at a symbolic 8-byte address.
pub fn read<S: Src>(s: &mut S, l0: usize, l1: usize, size: u64, le: bool) {
    let i = any_image(s, l0, l1, le, false, u64::MAX - 16);
    let addr = s.u64();
    s.note(&|| format!("read addr={:#x} size={}", addr, size));
    let got = i.img.read(&Bitvector::from_u64(addr), ByteSize::new(size));
    match (got, seg_of(&i, addr, size)) {
        (Ok(None), Some(k)) => {
            chk!(s, i.w[k], "C19 read: reported unknown content for a range inside a read-only segment");
            cov!(s, true, "writable-segment case reached");
        }
        (Ok(Some(v)), Some(k)) => {
            chk!(s, !i.w[k], "C19 read: returned bytes for a range inside a writable segment");
            let off = (addr - i.base[k]) as usize;
            let mut want = 0u64;
            macro_rules! one { ($j:expr) => { if ($j as u64) < size {
                let byte = i.bytes[k][off + $j] as u64;
                if le { want |= byte << (8 * $j); } else { want = (want << 8) | byte; }
            } }; }
            one!(0); one!(1); one!(2); one!(3); one!(4); one!(5); one!(6); one!(7);
            chk!(s, bv_is(&v, 8 * size as u32, want), "C19 read: returned value differs from the bytes stored in the image (byte order / offset)");
            cov!(s, true, "value-returning read reached");
            if (l0 as u64) > size || (l1 as u64) > size {
                cov!(s, off > 0, "read at a non-zero offset reached");
            }
            std::mem::forget(v);
        }
        (Ok(v), None) => {
            std::mem::forget(v);
            chk!(s, false, "C19 read: succeeded although the range is not inside one segment");
        }
        (Err(e), Some(_)) => {
            std::mem::forget(e);
            chk!(s, false, "C19 read: failed although the whole range lies in one segment");
        }
        (Err(e), None) => {
            std::mem::forget(e);
            cov!(s, addr.wrapping_add(1) == i.base[0] || addr == i.base[1] + i.len[1] - 1, "failing read at a segment boundary reached");
        }
    }
    std::mem::forget(i);
}

/// `is_global_memory_address` for a pointer-sized constant of `pbits` bits (reads pbits/8 bytes).
pub fn is_global<S: Src>(s: &mut S, l0: usize, l1: usize, pbits: u32) {
    let i = any_image(s, l0, l1, true, false, mask(pbits) - 8);
    let addr = s.uw(pbits);
    s.note(&|| format!("is_global_memory_address addr={:#x}:{}", addr, pbits));
    let got = i.img.is_global_memory_address(&mk(pbits, addr));
    let want = seg_of(&i, addr, pbits as u64 / 8).is_some();
    chk!(s, got == want, "C19 is_global_memory_address: answer differs from 'a pointer-sized read at the address succeeds'");
    cov!(s, want, "global address case reached");
    cov!(s, !want, "non-global address case reached");
    std::mem::forget(i);
}

/// Flag queries at a symbolic address / interval.
pub fn flags<S: Src>(s: &mut S, l0: usize, l1: usize) {
    let i = any_image(s, l0, l1, true, false, u64::MAX - 16);
    let addr = s.u64();
    let end = s.u64();
    s.assume(addr <= end);
    s.note(&|| format!("flag queries addr={:#x} interval end={:#x}", addr, end));
    let k = seg_of(&i, addr, 1);
    match (i.img.is_address_writeable(&Bitvector::from_u64(addr)), k) {
        (Ok(wf), Some(k)) => chk!(s, wf == i.w[k], "C19 is_address_writeable: flag differs from the segment containing the address"),
        (Ok(_), None) => chk!(s, false, "C19 is_address_writeable: succeeded for an address outside all segments"),
        (Err(e), Some(_)) => {
            std::mem::forget(e);
            chk!(s, false, "C19 is_address_writeable: failed for an address inside a segment")
        }
        (Err(e), None) => std::mem::forget(e),
    }
    let inside = |k: usize| end <= i.base[k] + i.len[k];
    match (i.img.is_interval_writeable(addr, end), k) {
        (Ok(wf), Some(k)) => {
            chk!(s, inside(k), "C19 is_interval_writeable: succeeded for an interval leaving its segment");
            chk!(s, wf == i.w[k], "C19 is_interval_writeable: flag differs from the segment containing the interval");
        }
        (Ok(_), None) => chk!(s, false, "C19 is_interval_writeable: succeeded for a start address outside all segments"),
        (Err(e), Some(k)) => {
            std::mem::forget(e);
            chk!(s, !inside(k), "C19 is_interval_writeable: failed for an interval inside one segment")
        }
        (Err(e), None) => std::mem::forget(e),
    }
    match (i.img.is_interval_readable(addr, end), k) {
        (Ok(rf), Some(k)) => {
            chk!(s, inside(k), "C19 is_interval_readable: succeeded for an interval leaving its segment");
            chk!(s, rf == i.r[k], "C19 is_interval_readable: flag differs from the segment containing the interval");
        }
        (Ok(_), None) => chk!(s, false, "C19 is_interval_readable: succeeded for a start address outside all segments"),
        (Err(e), Some(k)) => {
            std::mem::forget(e);
            chk!(s, !inside(k), "C19 is_interval_readable: failed for an interval inside one segment")
        }
        (Err(e), None) => std::mem::forget(e),
    }
    match (i.img.get_ro_data_pointer_at_address(&Bitvector::from_u64(addr)), k) {
        (Ok((bytes, idx)), Some(k)) => {
            chk!(s, !i.w[k], "C19 get_ro_data_pointer: succeeded for a writable segment");
            chk!(s, bytes.len() as u64 == i.len[k] && idx as u64 == addr - i.base[k], "C19 get_ro_data_pointer: wrong segment or index");
            chk!(s, idx < bytes.len() && bytes[idx] == i.bytes[k][idx], "C19 get_ro_data_pointer: byte at the returned index differs from the image");
        }
        (Ok(_), None) => chk!(s, false, "C19 get_ro_data_pointer: succeeded for an address outside all segments"),
        (Err(e), Some(k)) => {
            std::mem::forget(e);
            chk!(s, i.w[k], "C19 get_ro_data_pointer: failed for an address inside a read-only segment")
        }
        (Err(e), None) => std::mem::forget(e),
    }
    cov!(s, k == Some(1) && addr == i.base[1] && i.base[0] + i.len[0] == i.base[1], "address at the start of an adjacent segment reached");
    std::mem::forget(i);
}

/// String read at a symbolic address (ASCII contents, so UTF-8 validity is not the subject).
pub fn string<S: Src>(s: &mut S, l0: usize, l1: usize) {
    let i = any_image(s, l0, l1, true, true, u64::MAX - 16);
    let addr = s.u64();
    s.note(&|| format!("read_string_until_null_terminator addr={:#x}", addr));
    let k = seg_of(&i, addr, 1);
    let got = i.img.read_string_until_null_terminator(&Bitvector::from_u64(addr));
    match k {
        Some(k) => {
            let off = (addr - i.base[k]) as usize;
            // position of the first NUL at or after off inside segment k
            let mut nul: Option<usize> = None;
            macro_rules! one { ($j:expr) => { if $j >= off && ($j as u64) < i.len[k] && i.bytes[k][$j] == 0 && nul.is_none() { nul = Some($j); } }; }
            one!(0); one!(1); one!(2); one!(3); one!(4); one!(5); one!(6); one!(7);
            if !i.w[k] {
                match (got, nul) {
                    (Ok(st), Some(n)) => {
                        let b = st.as_bytes();
                        chk!(s, b.len() == n - off, "C19 read_string: returned string has the wrong length");
                        let mut ok = b.len() == n - off;
                        macro_rules! one { ($j:expr) => { if ok && $j < b.len() && b[$j] != i.bytes[k][off + $j] { ok = false; } }; }
                        one!(0); one!(1); one!(2); one!(3); one!(4); one!(5); one!(6); one!(7);
                        chk!(s, ok, "C19 read_string: returned string differs from the bytes stored in the image");
                        cov!(s, off > 0 && n > off, "non-empty string at a non-zero offset reached");
                    }
                    (Ok(_), None) => chk!(s, false, "C19 read_string: returned a string although the segment holds no NUL terminator after the address"),
                    (Err(e), Some(_)) => {
                        std::mem::forget(e);
                        chk!(s, false, "C19 read_string: failed for an address inside a read-only segment holding a NUL-terminated string");
                    }
                    (Err(e), None) => std::mem::forget(e),
                }
            } else {
                std::mem::forget(got);
            }
        }
        None => match got {
            Ok(_) => chk!(s, false, "C19 read_string: succeeded for an address outside all segments"),
            Err(e) => std::mem::forget(e),
        },
    }
    cov!(s, k == Some(1) && addr == i.base[1] && i.base[0] + i.len[0] == i.base[1] && !i.w[1], "string at the start of an adjacent read-only segment reached");
    std::mem::forget(i);
}

/// Bare-metal constructors: flash image + zeroed RAM, both readable and writable; reads inside report unknown content.
pub fn bare_metal<S: Src>(s: &mut S) {
    let b = any_bytes(s, 3, false);
    let flash_base = s.u64();
    let ram_base = s.u64();
    let ram_size = s.u8() as u64;
    s.assume(ram_size >= 1 && ram_size <= 3);
    s.assume(flash_base <= u64::MAX - 16 && ram_base <= u64::MAX - 16);
    s.assume(flash_base + 3 <= ram_base || ram_base + ram_size <= flash_base);
    let flash = MemorySegment::from_bare_metal_file(&b[..3], flash_base);
    let ram = MemorySegment::new_bare_metal_ram_segment(ram_base, ram_size);
    chk!(s, flash.base_address == flash_base && flash.bytes.len() == 3 && flash.read_flag && flash.write_flag && flash.execute_flag, "C19 bare metal: flash segment has the wrong extent or flags");
    chk!(s, flash.bytes[0] == b[0] && flash.bytes[1] == b[1] && flash.bytes[2] == b[2], "C19 bare metal: flash segment content differs from the binary");
    chk!(s, ram.base_address == ram_base && ram.bytes.len() as u64 == ram_size && ram.read_flag && ram.write_flag && !ram.execute_flag, "C19 bare metal: RAM segment has the wrong extent or flags");
    let img = RuntimeMemoryImage { memory_segments: vec![flash, ram], is_little_endian: true, is_lkm: false };
    let addr = s.u64();
    s.note(&|| format!("bare metal flash=[{:#x},+3) ram=[{:#x},+{}) read addr={:#x} size 1", flash_base, ram_base, ram_size, addr));
    let inside = (addr >= flash_base && addr < flash_base + 3) || (addr >= ram_base && addr < ram_base + ram_size);
    match img.read(&Bitvector::from_u64(addr), ByteSize::new(1)) {
        Ok(None) => chk!(s, inside, "C19 bare metal: read outside both segments succeeded"),
        Ok(Some(v)) => {
            std::mem::forget(v);
            chk!(s, false, "C19 bare metal: read returned bytes for a writable segment")
        }
        Err(e) => {
            std::mem::forget(e);
            chk!(s, !inside, "C19 bare metal: read inside a segment failed")
        }
    }
    cov!(s, inside && addr >= ram_base && ram_base < flash_base, "read inside RAM mapped below flash reached");
    std::mem::forget(img);
}

crate::harnesses! {
    // unwinding bound = read size + 1 (the Piece loop of `read` runs size-1 times, the byte-reversal size times)
    @quick c19_read_1_le[3] => read(3, 3, 1, true);
    @quick c19_read_2_le[3] => read(3, 3, 2, true);
    @quick c19_read_2_be[3] => read(3, 3, 2, false);
    c19_read_4_le[5] => read(5, 4, 4, true);
    @quick c19_read_4_be[5] => read(3, 6, 4, false);
    @stretch c19_read_8_le[9] => read(8, 3, 8, true);
    @stretch c19_read_8_be[9] => read(2, 8, 8, false);
    c19_read_1_be_4_2[3] => read(4, 2, 1, false);
    @quick c19_flags[3] => flags(3, 3);
    c19_flags_4_1[3] => flags(4, 1);
    @quick c19_string[5] => string(3, 3);
    c19_string_4_2[6] => string(4, 2);
    @quick c19_is_global_8[3] => is_global(2, 2, 8);
    c19_is_global_32[5] => is_global(4, 4, 32);
    @quick c19_bare_metal[4] => bare_metal();
}
