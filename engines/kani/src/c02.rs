//! C02 — interval transfer functions are sound (layer 1: `Interval`, the strided-interval arithmetic
//! in simple_interval.rs on which every `IntervalDomain` transfer function is built).
//!
//! Inputs: arbitrary well-formed strided intervals of a concrete width (start <=s end; stride = 0 iff
//! start = end; stride divides end-start) and arbitrary members. Oracle: membership and well-formedness
//! are re-computed here from the public fields with native integer arithmetic; the concrete operation
//! comes from the C01 reference semantics.

use crate::common::*;
use crate::{chk, cov};
use cwe_checker_lib::abstract_domain::Interval;
use cwe_checker_lib::intermediate_representation::*;

/// Model of a strided interval (signed bounds carried in i64).
#[derive(Clone, Copy)]
pub struct IV {
    pub s: i64,
    pub e: i64,
    pub stride: u64,
    pub bits: u32,
}

/// `diff % stride` computed in the narrowest native type that holds both (a 64-bit divider circuit per modulo
/// made the SAT proofs of the 1-byte harnesses take minutes; diff < 2^bits and stride < 2^bits by construction).
pub fn umod(diff: u64, stride: u64, bits: u32) -> u64 {
    if bits <= 8 {
        ((diff as u16) % (stride as u16)) as u64
    } else if bits <= 16 {
        ((diff as u32) % (stride as u32)) as u64
    } else {
        diff % stride
    }
}

/// Arbitrary well-formed interval of width `bits` with stride <= max_stride.
pub fn any_iv<S: Src>(s: &mut S, bits: u32, max_stride: u64) -> IV {
    let st = sext(s.uw(bits), bits);
    let en = sext(s.uw(bits), bits);
    let stride = if bits <= 8 { s.u8() as u64 } else { s.u64() };
    s.assume(st <= en);
    s.assume(stride <= max_stride);
    if st == en {
        s.assume(stride == 0);
    } else {
        s.assume(stride > 0);
        s.assume(stride <= mask(bits));
        s.assume(umod(en.wrapping_sub(st) as u64, stride, bits) == 0);
    }
    IV { s: st, e: en, stride, bits }
}

pub fn to_interval(iv: &IV) -> Interval {
    Interval { start: mk(iv.bits, iv.s as u64), end: mk(iv.bits, iv.e as u64), stride: iv.stride }
}

/// Arbitrary member of the interval (assumed through the reference membership).
pub fn any_member<S: Src>(s: &mut S, iv: &IV) -> i64 {
    let v = sext(s.uw(iv.bits), iv.bits);
    s.assume(ref_contains(iv, v));
    v
}

pub fn ref_contains(iv: &IV, v: i64) -> bool {
    if v < iv.s || v > iv.e {
        return false;
    }
    if iv.stride == 0 {
        v == iv.s
    } else if iv.stride > mask(iv.bits) {
        // a stride that does not fit the width can only be met by the start value itself
        v == iv.s
    } else {
        umod(v.wrapping_sub(iv.s) as u64, iv.stride, iv.bits) == 0
    }
}

/// Read a real interval of (concretely known, constant-propagated) width `bits` back into the model.
/// Only for intervals built by the harness itself; results of library calls are inspected through `res_*` below.
pub fn from_interval(i: &Interval, bits: u32) -> IV {
    IV { s: sext(bv_val(&i.start, bits), bits), e: sext(bv_val(&i.end, bits), bits), stride: i.stride, bits }
}

/// Read a RESULT interval of the library back into the model.
///
/// After an `Option`/`Result` merge inside the library CBMC's constant propagation no longer knows the width of
/// a produced bitvector, and every apint operation on it (resize, truncate, sub, compare) is then explored on
/// the heap-storage paths as well. So the harness touches each produced bound exactly once: it checks the width
/// field, then binds a fresh native value to the bound by ONE apint equality (`assume(bound == mk(bits, fresh))`,
/// always satisfiable once the width is right) and reasons about the fresh native values from there on.
pub fn read_back<S: Src>(s: &mut S, i: &Interval, bits: u32) -> Option<IV> {
    if bv_bits(&i.start) != bits || bv_bits(&i.end) != bits {
        return None;
    }
    let rs = s.uw(bits);
    let re = s.uw(bits);
    s.assume(i.start == mk(bits, rs));
    s.assume(i.end == mk(bits, re));
    Some(IV { s: sext(rs, bits), e: sext(re, bits), stride: i.stride, bits })
}

/// Representation invariant on the model.
pub fn wf_iv(m: &IV) -> bool {
    if m.s > m.e {
        return false;
    }
    if m.s == m.e {
        m.stride == 0
    } else {
        m.stride > 0 && m.stride <= mask(m.bits) && umod(m.e.wrapping_sub(m.s) as u64, m.stride, m.bits) == 0
    }
}

/// Width + representation invariant of an interval whose width is constant-propagated (harness-built or in-place modified).
pub fn wf(i: &Interval, bits: u32) -> bool {
    if bv_bits(&i.start) != bits || bv_bits(&i.end) != bits {
        return false;
    }
    wf_iv(&from_interval(i, bits))
}

macro_rules! result_ok {
    ($s:expr, $r:expr, $bits:expr, $v:expr, $what:literal) => {{
        match read_back($s, &$r, $bits) {
            None => chk!($s, false, concat!("C02 ", $what, ": result interval has the wrong width")),
            Some(m) => {
                chk!($s, wf_iv(&m), concat!("C02 ", $what, ": result interval is not well-formed (start<=end, stride 0 iff singleton, stride divides length)"));
                chk!($s, ref_contains(&m, $v), concat!("C02 ", $what, ": concrete result is not a member of the computed interval"));
            }
        }
    }};
}

fn note_iv<S: Src>(s: &mut S, name: &'static str, iv: &IV) {
    let iv = *iv;
    s.note(&|| format!("{} = [{}, {}] stride {} ({} bits)", name, iv.s, iv.e, iv.stride, iv.bits));
}

/// The library's own membership test equals the arithmetic definition.
pub fn contains_eq<S: Src>(s: &mut S, bits: u32, max_stride: u64) {
    let a = any_iv(s, bits, max_stride);
    let v = sext(s.uw(bits), bits);
    note_iv(s, "A", &a);
    s.note(&|| format!("v = {}", v));
    let got = to_interval(&a).contains(&mk(bits, v as u64));
    chk!(s, got == ref_contains(&a, v), "C02 contains: membership test differs from the definition of a strided interval");
    cov!(s, got && a.stride > 1, "member of a strided interval reached");
    cov!(s, !got && v > a.s && v < a.e, "non-member between the bounds reached");
}

/// Arbitrary well-formed interval of width `bits` with the given *concrete* stride (0 = singleton).
pub fn any_iv_with_stride<S: Src>(s: &mut S, bits: u32, stride: u64) -> IV {
    let st = sext(s.uw(bits), bits);
    if stride == 0 {
        return IV { s: st, e: st, stride: 0, bits };
    }
    let en = sext(s.uw(bits), bits);
    s.assume(st < en);
    s.assume(umod(en.wrapping_sub(st) as u64, stride, bits) == 0);
    IV { s: st, e: en, stride, bits }
}

/// add (op 0) / sub (op 1) / signed_mul (op 2) for concrete stride pairs (sa, sb_min..=sb_max): with concrete strides the
/// gcd computations inside the transfer functions are constants for the solver; starts, ends and both members are symbolic.
pub fn arith_pairs<S: Src>(s: &mut S, bits: u32, op: u32, sa: u64, sb_min: u64, sb_max: u64) {
    let mut sb = sb_min;
    while sb <= sb_max {
        let a = any_iv_with_stride(s, bits, sa);
        let b = any_iv_with_stride(s, bits, sb);
        let x = any_member(s, &a);
        let y = any_member(s, &b);
        note_iv(s, "A", &a);
        note_iv(s, "B", &b);
        s.note(&|| format!("x = {} y = {}", x, y));
        let (ia, ib) = (to_interval(&a), to_interval(&b));
        if op == 0 {
            let r = ia.add(&ib);
            result_ok!(s, r, bits, sext(x.wrapping_add(y) as u64, bits), "add");
        } else if op == 1 {
            let r = ia.sub(&ib);
            result_ok!(s, r, bits, sext(x.wrapping_sub(y) as u64, bits), "sub");
        } else {
            let r = ia.signed_mul(&ib);
            result_ok!(s, r, bits, sext(x.wrapping_mul(y) as u64, bits), "signed_mul");
        }
        sb += 1;
    }
    cov!(s, true, "all stride pairs executed");
}

/// add
pub fn add<S: Src>(s: &mut S, bits: u32, max_stride: u64) {
    let a = any_iv(s, bits, max_stride);
    let b = any_iv(s, bits, max_stride);
    let x = any_member(s, &a);
    let y = any_member(s, &b);
    note_iv(s, "A", &a);
    note_iv(s, "B", &b);
    s.note(&|| format!("x = {} y = {}", x, y));
    let r = to_interval(&a).add(&to_interval(&b));
    result_ok!(s, r, bits, sext(x.wrapping_add(y) as u64, bits), "add");
    cov!(s, r.stride > 1, "strided sum reached");
}

/// sub
pub fn sub<S: Src>(s: &mut S, bits: u32, max_stride: u64) {
    let a = any_iv(s, bits, max_stride);
    let b = any_iv(s, bits, max_stride);
    let x = any_member(s, &a);
    let y = any_member(s, &b);
    note_iv(s, "A", &a);
    note_iv(s, "B", &b);
    s.note(&|| format!("x = {} y = {}", x, y));
    let r2 = to_interval(&a).sub(&to_interval(&b));
    result_ok!(s, r2, bits, sext(x.wrapping_sub(y) as u64, bits), "sub");
    cov!(s, r2.stride > 1, "strided difference reached");
}

/// add / sub
pub fn add_sub<S: Src>(s: &mut S, bits: u32, max_stride: u64) {
    let a = any_iv(s, bits, max_stride);
    let b = any_iv(s, bits, max_stride);
    let x = any_member(s, &a);
    let y = any_member(s, &b);
    note_iv(s, "A", &a);
    note_iv(s, "B", &b);
    s.note(&|| format!("x = {} y = {}", x, y));
    let (ia, ib) = (to_interval(&a), to_interval(&b));
    let r = ia.add(&ib);
    result_ok!(s, r, bits, sext(x.wrapping_add(y) as u64, bits), "add");
    cov!(s, r.stride > 1, "strided sum reached");
    let r2 = ia.sub(&ib);
    result_ok!(s, r2, bits, sext(x.wrapping_sub(y) as u64, bits), "sub");
    cov!(s, r2.stride > 1, "strided difference reached");
}

/// signed_mul
pub fn mul<S: Src>(s: &mut S, bits: u32, max_stride: u64) {
    let a = any_iv(s, bits, max_stride);
    let b = any_iv(s, bits, max_stride);
    let x = any_member(s, &a);
    let y = any_member(s, &b);
    note_iv(s, "A", &a);
    note_iv(s, "B", &b);
    s.note(&|| format!("x = {} y = {}", x, y));
    let r = to_interval(&a).signed_mul(&to_interval(&b));
    result_ok!(s, r, bits, sext(x.wrapping_mul(y) as u64, bits), "signed_mul");
    cov!(s, r.stride > 1, "strided product reached");
}

/// int_2_comp / bitwise_not
pub fn unary<S: Src>(s: &mut S, bits: u32, max_stride: u64) {
    let a = any_iv(s, bits, max_stride);
    let x = any_member(s, &a);
    note_iv(s, "A", &a);
    s.note(&|| format!("x = {}", x));
    let r = to_interval(&a).int_2_comp();
    result_ok!(s, r, bits, sext(x.wrapping_neg() as u64, bits), "int_2_comp");
    cov!(s, r.stride > 1, "strided negation reached");
    let r2 = to_interval(&a).bitwise_not();
    result_ok!(s, r2, bits, sext(!x as u64, bits), "bitwise_not");
}

/// zero_extend from `bits` to `out`
pub fn zext<S: Src>(s: &mut S, bits: u32, out: u32, max_stride: u64) {
    let a = any_iv(s, bits, max_stride);
    let x = any_member(s, &a);
    note_iv(s, "A", &a);
    s.note(&|| format!("x = {}", x));
    let r = to_interval(&a).zero_extend(ByteSize::new(out as u64 / 8));
    result_ok!(s, r, out, (x as u64 & mask(bits)) as i64, "zero_extend");
    cov!(s, a.s < 0 && a.e >= 0 && a.stride > 1, "strided interval spanning zero reached");
}

/// piece: A (high, abits) ++ B (low, bbits)
pub fn piece<S: Src>(s: &mut S, abits: u32, bbits: u32, max_stride: u64) {
    let a = any_iv(s, abits, max_stride);
    let b = any_iv(s, bbits, max_stride);
    let x = any_member(s, &a);
    let y = any_member(s, &b);
    note_iv(s, "A(high)", &a);
    note_iv(s, "B(low)", &b);
    s.note(&|| format!("x = {} y = {}", x, y));
    let r = to_interval(&a).piece(&to_interval(&b));
    let v = ((x as u64 & mask(abits)) << bbits) | (y as u64 & mask(bbits));
    result_ok!(s, r, abits + bbits, sext(v, abits + bbits), "piece");
    cov!(s, a.stride > 0 && b.stride > 1, "two non-singleton inputs reached");
    cov!(s, b.s < 0 && b.e >= 0, "low part spanning zero reached");
}

/// subpiece_higher(low_byte) / subpiece_lower(size) / subpiece(low, size) of a `bits` wide interval
pub fn subpiece<S: Src>(s: &mut S, bits: u32, low: u32, size: u32, max_stride: u64) {
    let a = any_iv(s, bits, max_stride);
    let x = any_member(s, &a);
    note_iv(s, "A", &a);
    s.note(&|| format!("x = {} low_byte = {} size = {}", x, low, size));
    let r = to_interval(&a).subpiece(ByteSize::new(low as u64), ByteSize::new(size as u64));
    let v = ((x as u64 & mask(bits)) >> (8 * low)) & mask(8 * size);
    result_ok!(s, r, 8 * size, sext(v, 8 * size), "subpiece");
    cov!(s, a.stride > 1 && r.stride > 0, "subpiece of a strided interval reached");
}

/// adjust_end_to_value_in_stride / adjust_start_to_value_in_stride on an interval whose bounds need not be aligned
pub fn adjust<S: Src>(s: &mut S, bits: u32, max_stride: u64) {
    let st = sext(s.uw(bits), bits);
    let en = sext(s.uw(bits), bits);
    let stride = s.u8() as u64;
    s.assume(st <= en && stride <= max_stride);
    let v = sext(s.uw(bits), bits);
    s.note(&|| format!("raw interval [{}, {}] stride {} ({} bits), v = {}", st, en, stride, bits, v));
    // values on the stride counted from the start (for adjust_end) / from the end (for adjust_start)
    let from_start = v >= st && v <= en && (if stride == 0 { v == st } else { umod((v - st) as u64, stride, bits) == 0 });
    let from_end = v >= st && v <= en && (if stride == 0 { v == en } else { umod((en - v) as u64, stride, bits) == 0 });
    let mut i = Interval { start: mk(bits, st as u64), end: mk(bits, en as u64), stride };
    i.adjust_end_to_value_in_stride();
    match read_back(s, &i, bits) {
        None => chk!(s, false, "C02 adjust_end_to_value_in_stride: result interval has the wrong width"),
        Some(m) => {
            chk!(s, wf_iv(&m), "C02 adjust_end_to_value_in_stride: result interval is not well-formed");
            chk!(s, m.s == st && m.e <= en, "C02 adjust_end_to_value_in_stride: start changed or end increased");
            if from_start {
                chk!(s, ref_contains(&m, v), "C02 adjust_end_to_value_in_stride: a value on the stride was removed");
            }
        }
    }
    let mut j = Interval { start: mk(bits, st as u64), end: mk(bits, en as u64), stride };
    j.adjust_start_to_value_in_stride();
    match read_back(s, &j, bits) {
        None => chk!(s, false, "C02 adjust_start_to_value_in_stride: result interval has the wrong width"),
        Some(m2) => {
            chk!(s, wf_iv(&m2), "C02 adjust_start_to_value_in_stride: result interval is not well-formed");
            chk!(s, m2.e == en && m2.s >= st, "C02 adjust_start_to_value_in_stride: end changed or start decreased");
            if from_end {
                chk!(s, ref_contains(&m2, v), "C02 adjust_start_to_value_in_stride: a value on the stride was removed");
            }
        }
    }
    cov!(s, stride > 1 && from_start && v != st, "inner value on the stride reached");
}

/// adjust_to_stride_and_remainder
pub fn adjust_rem<S: Src>(s: &mut S, bits: u32, max_stride: u64) {
    let a = any_iv(s, bits, max_stride);
    let stride = s.u8() as u64;
    let rem = s.u8() as u64;
    s.assume(stride >= 1 && stride <= max_stride && rem < stride);
    let v = sext(s.uw(bits), bits);
    note_iv(s, "A", &a);
    s.note(&|| format!("stride = {} remainder = {} v = {}", stride, rem, v));
    let sel = v >= a.s && v <= a.e && (v - rem as i64).rem_euclid(stride as i64) == 0;
    match to_interval(&a).adjust_to_stride_and_remainder(stride, rem) {
        Ok(r) => {
            match read_back(s, &r, bits) {
                None => chk!(s, false, "C02 adjust_to_stride_and_remainder: result interval has the wrong width"),
                Some(m) => {
                    chk!(s, wf_iv(&m), "C02 adjust_to_stride_and_remainder: result interval is not well-formed");
                    if sel {
                        chk!(s, ref_contains(&m, v), "C02 adjust_to_stride_and_remainder: a value in the residue class was removed");
                    }
                }
            }
            cov!(s, sel && r.stride > 1, "strided result reached");
        }
        Err(e) => {
            std::mem::forget(e);
            chk!(s, !sel, "C02 adjust_to_stride_and_remainder: reported empty although a value of the residue class lies in the interval");
            cov!(s, true, "empty result reached");
        }
    }
}

crate::harnesses! {
    // quick: proofs that finish in minutes; thorough: all strides <= 255. `sub` with symbolic strides needs a
    // modular-arithmetic lemma CaDiCaL does not find within 15 min even for strides <= 3 (measured; kept as a stretch
    // harness); it is decided per concrete stride pair instead (below) and at all widths by the domain-layer result validation
    @quick c02_contains_8[4] => contains_eq(8, 255);
    c02_contains_64_s16[4] => contains_eq(64, 16);
    @quick c02_add_8_s15[4] => add(8, 15);
    @quick c02_mul_8_s3[4] => mul(8, 3);
    @stretch c02_sub_8_s3[4] => sub(8, 3);
    // `sub` with concrete stride pairs (start, end, both members symbolic): the gcd of the strides is then a constant for
    // the solver and the proof takes about a minute per pair; quick: four pairs, thorough: all 121 pairs 0..=10 x 0..=10
    @quick c02_sub_pair_8_6_4[4] => arith_pairs(8, 1, 6, 4, 4);
    @quick c02_sub_pair_8_5_3[4] => arith_pairs(8, 1, 5, 3, 3);
    @quick c02_sub_pair_8_0_7[4] => arith_pairs(8, 1, 0, 7, 7);
    @quick c02_sub_pair_8_8_12[4] => arith_pairs(8, 1, 8, 12, 12);
    c02_sub_row_8_0_lo[8] => arith_pairs(8, 1, 0, 0, 5);
    c02_sub_row_8_0_hi[8] => arith_pairs(8, 1, 0, 6, 10);
    c02_sub_row_8_1_lo[8] => arith_pairs(8, 1, 1, 0, 5);
    c02_sub_row_8_1_hi[8] => arith_pairs(8, 1, 1, 6, 10);
    c02_sub_row_8_2_lo[8] => arith_pairs(8, 1, 2, 0, 5);
    c02_sub_row_8_2_hi[8] => arith_pairs(8, 1, 2, 6, 10);
    c02_sub_row_8_3_lo[8] => arith_pairs(8, 1, 3, 0, 5);
    c02_sub_row_8_3_hi[8] => arith_pairs(8, 1, 3, 6, 10);
    c02_sub_row_8_4_lo[8] => arith_pairs(8, 1, 4, 0, 5);
    c02_sub_row_8_4_hi[8] => arith_pairs(8, 1, 4, 6, 10);
    c02_sub_row_8_5_lo[8] => arith_pairs(8, 1, 5, 0, 5);
    c02_sub_row_8_5_hi[8] => arith_pairs(8, 1, 5, 6, 10);
    c02_sub_row_8_6_lo[8] => arith_pairs(8, 1, 6, 0, 5);
    c02_sub_row_8_6_hi[8] => arith_pairs(8, 1, 6, 6, 10);
    c02_sub_row_8_7_lo[8] => arith_pairs(8, 1, 7, 0, 5);
    c02_sub_row_8_7_hi[8] => arith_pairs(8, 1, 7, 6, 10);
    c02_sub_row_8_8_lo[8] => arith_pairs(8, 1, 8, 0, 5);
    c02_sub_row_8_8_hi[8] => arith_pairs(8, 1, 8, 6, 10);
    c02_sub_row_8_9_lo[8] => arith_pairs(8, 1, 9, 0, 5);
    c02_sub_row_8_9_hi[8] => arith_pairs(8, 1, 9, 6, 10);
    c02_sub_row_8_10_lo[8] => arith_pairs(8, 1, 10, 0, 5);
    c02_sub_row_8_10_hi[8] => arith_pairs(8, 1, 10, 6, 10);
    @stretch c02_mul_8_s15[4] => mul(8, 15);
    c02_add_8[4] => add(8, 255);
    @stretch c02_mul_8[4] => mul(8, 255);
    @stretch c02_add_16_s15[4] => add(16, 15);
    @quick c02_unary_8[4] => unary(8, 255);
    @stretch c02_unary_64_s16[4] => unary(64, 16);
    @quick c02_zext_8_16[4] => zext(8, 16, 255);
    c02_zext_8_64[4] => zext(8, 64, 255);
    @quick c02_piece_8_8[4] => piece(8, 8, 255);
    @quick c02_subpiece_16_1_1[4] => subpiece(16, 1, 1, 255);
    @quick c02_subpiece_16_0_1[4] => subpiece(16, 0, 1, 255);
    c02_subpiece_32_1_2[4] => subpiece(32, 1, 2, 15);
    c02_subpiece_32_0_2[4] => subpiece(32, 0, 2, 15);
    @quick c02_adjust_8[4] => adjust(8, 255);
    @quick c02_adjust_rem_8_s15[4] => adjust_rem(8, 15);
    c02_adjust_rem_8[4] => adjust_rem(8, 255);
}
