//! C01 — constant folding agrees with the P-Code reference semantics.
//!
//! Oracle: P-Code reference manual semantics written on native machine integers (`refsem`).
//! Every harness fixes the operand width (so all apint widths stay concrete) and leaves operand
//! values and the choice of the operation within a class to the solver.

use crate::common::*;
use crate::{chk, cov};
use cwe_checker_lib::abstract_domain::{BitvectorDomain, RegisterDomain, SizedDomain};
use cwe_checker_lib::intermediate_representation::*;

/// Reference result: a value of a given bit width, or "unknown".
#[derive(Clone, Copy, PartialEq, Eq, Debug)]
pub enum Ref {
    Val(u32, u64),
    Unknown,
}

/// P-Code semantics of a binary operation on two operands of widths (abits, bbits), values zero-extended in u64.
pub fn ref_binop(op: BinOpType, abits: u32, a: u64, bbits: u32, b: u64) -> Ref {
    use BinOpType::*;
    let m = mask(abits);
    let (sa, sb) = (sext(a, abits), sext(b, bbits));
    let smin = sext(1u64 << (abits - 1), abits);
    let smax = (m >> 1) as i64;
    let boolean = |c: bool| Ref::Val(8, c as u64);
    match op {
        Piece => {
            if abits + bbits > 64 {
                Ref::Unknown // not used: harnesses for wide pieces have their own oracle
            } else {
                Ref::Val(abits + bbits, (a << bbits) | b)
            }
        }
        IntEqual => boolean(a == b),
        IntNotEqual => boolean(a != b),
        IntLess => boolean(a < b),
        IntSLess => boolean(sa < sb),
        IntLessEqual => boolean(a <= b),
        IntSLessEqual => boolean(sa <= sb),
        IntAdd => Ref::Val(abits, a.wrapping_add(b) & m),
        IntSub => Ref::Val(abits, a.wrapping_sub(b) & m),
        IntCarry => boolean((a as u128 + b as u128) > m as u128),
        IntSCarry => {
            let r = sa as i128 + sb as i128;
            boolean(r > smax as i128 || r < smin as i128)
        }
        IntSBorrow => {
            let r = sa as i128 - sb as i128;
            boolean(r > smax as i128 || r < smin as i128)
        }
        IntXOr | BoolXOr => Ref::Val(abits, a ^ b),
        IntAnd | BoolAnd => Ref::Val(abits, a & b),
        IntOr | BoolOr => Ref::Val(abits, a | b),
        IntLeft => Ref::Val(abits, if b >= abits as u64 { 0 } else { (a << b) & m }),
        IntRight => Ref::Val(abits, if b >= abits as u64 { 0 } else { a >> b }),
        IntSRight => {
            let r = if b >= abits as u64 {
                if sa < 0 {
                    m
                } else {
                    0
                }
            } else {
                (sa >> b) as u64 & m
            };
            Ref::Val(abits, r)
        }
        IntMult => Ref::Val(abits, a.wrapping_mul(b) & m),
        IntDiv => {
            if b == 0 {
                Ref::Unknown
            } else {
                Ref::Val(abits, a / b)
            }
        }
        IntRem => {
            if b == 0 {
                Ref::Unknown
            } else {
                Ref::Val(abits, a % b)
            }
        }
        IntSDiv => {
            if b == 0 {
                Ref::Unknown
            } else {
                Ref::Val(abits, sa.wrapping_div(sb) as u64 & m)
            }
        }
        IntSRem => {
            if b == 0 {
                Ref::Unknown
            } else {
                Ref::Val(abits, sa.wrapping_rem(sb) as u64 & m)
            }
        }
        FloatEqual | FloatNotEqual | FloatLess | FloatLessEqual | FloatAdd | FloatSub
        | FloatMult | FloatDiv => Ref::Unknown,
    }
}

/// Result width in bits of a binary operation according to the P-Code manual (used for the Top case).
pub fn ref_binop_bits(op: BinOpType, abits: u32, bbits: u32) -> u32 {
    use BinOpType::*;
    match op {
        Piece => abits + bbits,
        IntEqual | IntNotEqual | IntLess | IntSLess | IntLessEqual | IntSLessEqual | IntCarry
        | IntSCarry | IntSBorrow | BoolXOr | BoolOr | BoolAnd | FloatEqual | FloatNotEqual
        | FloatLess | FloatLessEqual => 8,
        _ => abits,
    }
}

pub fn ref_unop(op: UnOpType, bits: u32, a: u64) -> Ref {
    use UnOpType::*;
    let m = mask(bits);
    match op {
        Int2Comp => Ref::Val(bits, a.wrapping_neg() & m),
        IntNegate => Ref::Val(bits, !a & m),
        BoolNegate => Ref::Val(8, (a == 0) as u64),
        _ => Ref::Unknown,
    }
}

pub fn ref_cast(kind: CastOpType, bits: u32, a: u64, out_bits: u32) -> Ref {
    use CastOpType::*;
    let mo = mask(out_bits);
    match kind {
        IntZExt => Ref::Val(out_bits, a),
        IntSExt => Ref::Val(out_bits, sext(a, bits) as u64 & mo),
        PopCount => Ref::Val(out_bits, a.count_ones() as u64 & mo),
        LzCount => Ref::Val(out_bits, (a.leading_zeros() - (64 - bits)) as u64 & mo),
        Int2Float | Float2Float | Trunc => Ref::Unknown,
    }
}


/// One concrete operation on symbolic operands: real `Bitvector::bin_op` vs. the reference.
macro_rules! one_binop {
    ($s:expr, $op:ident, $abits:expr, $a:expr, $bbits:expr, $b:expr) => {{
        let want = ref_binop(BinOpType::$op, $abits, $a, $bbits, $b);
        let got = mk($abits, $a).bin_op(BinOpType::$op, &mk($bbits, $b));
        $s.note(&|| format!("op={} a={:#x}:{} b={:#x}:{} want={:?}", stringify!($op), $a, $abits, $b, $bbits, want));
        match (got, want) {
            (Ok(v), Ref::Val(bits, val)) => {
                chk!($s, bv_bits(&v) == bits, concat!("C01 ", stringify!($op), ": result width differs from the P-Code result width"));
                chk!($s, bv_is(&v, bits, val), concat!("C01 ", stringify!($op), ": result value differs from the P-Code reference value"));
            }
            (Ok(_), Ref::Unknown) => {
                chk!($s, false, concat!("C01 ", stringify!($op), ": unsupported operation returned a value instead of unknown"));
            }
            (Err(e), Ref::Val(..)) => {
                std::mem::forget(e);
                chk!($s, false, concat!("C01 ", stringify!($op), ": supported operation reported unknown"));
            }
            (Err(e), Ref::Unknown) => {
                std::mem::forget(e);
            }
        }
    }};
}

/// One concrete operation through the abstract-domain wrapper `BitvectorDomain::bin_op`,
/// for (known, known), (Top, known) and (known, Top) operands.
macro_rules! one_dom_binop {
    ($s:expr, $op:ident, $abits:expr, $a:expr, $bbits:expr, $b:expr) => {{
        let want = ref_binop(BinOpType::$op, $abits, $a, $bbits, $b);
        let rbits = ref_binop_bits(BinOpType::$op, $abits, $bbits) as u64;
        $s.note(&|| format!("domain op={} a={:#x}:{} b={:#x}:{} want={:?}", stringify!($op), $a, $abits, $b, $bbits, want));
        let da = BitvectorDomain::Value(mk($abits, $a));
        let db = BitvectorDomain::Value(mk($bbits, $b));
        match (da.bin_op(BinOpType::$op, &db), want) {
            (BitvectorDomain::Value(v), Ref::Val(wb, wv)) => {
                chk!($s, bv_is(&v, wb, wv), concat!("C01 ", stringify!($op), ": domain result value differs from the P-Code reference value"));
            }
            (BitvectorDomain::Value(_), Ref::Unknown) => {
                chk!($s, false, concat!("C01 ", stringify!($op), ": domain returned a value for an unsupported operation"));
            }
            (BitvectorDomain::Top(_), Ref::Val(..)) => {
                chk!($s, false, concat!("C01 ", stringify!($op), ": domain reported unknown for a supported operation on known operands"));
            }
            (BitvectorDomain::Top(sz), Ref::Unknown) => {
                chk!($s, u64::from(sz) * 8 == rbits, concat!("C01 ", stringify!($op), ": unknown result has the wrong width"));
            }
        }
        let ta = BitvectorDomain::Top(ByteSize::new($abits as u64 / 8));
        let tb = BitvectorDomain::Top(ByteSize::new($bbits as u64 / 8));
        match ta.bin_op(BinOpType::$op, &db) {
            BitvectorDomain::Top(sz) => chk!($s, u64::from(sz) * 8 == rbits, concat!("C01 ", stringify!($op), ": unknown result has the wrong width")),
            BitvectorDomain::Value(_) => chk!($s, false, concat!("C01 ", stringify!($op), ": domain returned a value for an unknown operand")),
        }
        match da.bin_op(BinOpType::$op, &tb) {
            BitvectorDomain::Top(sz) => chk!($s, u64::from(sz) * 8 == rbits, concat!("C01 ", stringify!($op), ": unknown result has the wrong width")),
            BitvectorDomain::Value(_) => chk!($s, false, concat!("C01 ", stringify!($op), ": domain returned a value for an unknown operand")),
        }
        std::mem::forget((da, db));
    }};
}

macro_rules! class_fn {
    ($name:ident, [$($op:ident),*]) => {
        pub fn $name<S: Src>(s: &mut S, bits: u32, bbits: u32) {
            let a = s.uw(bits);
            let b = s.uw(bbits);
            $( one_binop!(s, $op, bits, a, bbits, b); )*
            cov!(s, true, "end of harness reached");
        }
    };
}

class_fn!(bv_arith, [IntAdd, IntSub, IntAnd, IntOr, IntXOr]);
class_fn!(bv_mul, [IntMult]);
class_fn!(bv_shift, [IntLeft, IntRight, IntSRight]);
class_fn!(bv_cmp, [IntEqual, IntNotEqual, IntLess, IntSLess, IntLessEqual, IntSLessEqual]);
class_fn!(bv_flags, [IntCarry, IntSCarry, IntSBorrow]);
class_fn!(bv_udiv, [IntDiv, IntRem]);
class_fn!(bv_sdiv, [IntSDiv, IntSRem]);
class_fn!(bv_float, [FloatEqual, FloatNotEqual, FloatLess, FloatLessEqual, FloatAdd, FloatSub, FloatMult, FloatDiv]);

/// All same-width binary operations except division, plus unary ops, on one pair of symbolic operands.
pub fn bv_all<S: Src>(s: &mut S, bits: u32) {
    let a = s.uw(bits);
    let b = s.uw(bits);
    one_binop!(s, IntAdd, bits, a, bits, b);
    one_binop!(s, IntSub, bits, a, bits, b);
    one_binop!(s, IntAnd, bits, a, bits, b);
    one_binop!(s, IntOr, bits, a, bits, b);
    one_binop!(s, IntXOr, bits, a, bits, b);
    one_binop!(s, IntMult, bits, a, bits, b);
    one_binop!(s, IntLeft, bits, a, bits, b);
    one_binop!(s, IntRight, bits, a, bits, b);
    one_binop!(s, IntSRight, bits, a, bits, b);
    one_binop!(s, IntEqual, bits, a, bits, b);
    one_binop!(s, IntNotEqual, bits, a, bits, b);
    one_binop!(s, IntLess, bits, a, bits, b);
    one_binop!(s, IntSLess, bits, a, bits, b);
    one_binop!(s, IntLessEqual, bits, a, bits, b);
    one_binop!(s, IntSLessEqual, bits, a, bits, b);
    one_binop!(s, IntCarry, bits, a, bits, b);
    one_binop!(s, IntSCarry, bits, a, bits, b);
    one_binop!(s, IntSBorrow, bits, a, bits, b);
    one_binop!(s, FloatEqual, bits, a, bits, b);
    one_binop!(s, FloatNotEqual, bits, a, bits, b);
    one_binop!(s, FloatLess, bits, a, bits, b);
    one_binop!(s, FloatLessEqual, bits, a, bits, b);
    one_binop!(s, FloatAdd, bits, a, bits, b);
    one_binop!(s, FloatSub, bits, a, bits, b);
    one_binop!(s, FloatMult, bits, a, bits, b);
    one_binop!(s, FloatDiv, bits, a, bits, b);
    one_binop!(s, IntDiv, bits, a, bits, 0u64);
    one_binop!(s, IntRem, bits, a, bits, 0u64);
    one_binop!(s, IntSDiv, bits, a, bits, 0u64);
    one_binop!(s, IntSRem, bits, a, bits, 0u64);
    cov!(s, true, "end of harness reached");
}

/// One operation through the abstract-domain wrapper (kept to one operation per harness: the
/// enum wrapper makes CBMC's byte-level post-processing expensive, measured 27 s per call).
macro_rules! dom_fn {
    ($name:ident, $op:ident) => {
        pub fn $name<S: Src>(s: &mut S, bits: u32, bbits: u32) {
            let a = s.uw(bits);
            let b = s.uw(bbits);
            one_dom_binop!(s, $op, bits, a, bbits, b);
            cov!(s, true, "end of harness reached");
        }
    };
}
dom_fn!(dom_add, IntAdd);
dom_fn!(dom_xor, IntXOr);
dom_fn!(dom_mult, IntMult);
dom_fn!(dom_left, IntLeft);
dom_fn!(dom_sright, IntSRight);
dom_fn!(dom_less, IntLess);
dom_fn!(dom_sless, IntSLess);
dom_fn!(dom_equal, IntEqual);
dom_fn!(dom_carry, IntCarry);
dom_fn!(dom_scarry, IntSCarry);
dom_fn!(dom_sborrow, IntSBorrow);
dom_fn!(dom_div, IntDiv);
dom_fn!(dom_srem, IntSRem);
dom_fn!(dom_fadd, FloatAdd);
dom_fn!(dom_fless, FloatLess);
dom_fn!(dom_piece, Piece);
dom_fn!(dom_boolor, BoolOr);

/// Shifts through the abstract-domain wrapper where the shift amount has another width than the shifted value:
/// the value is symbolic, the amounts are concrete (0, width-1, width, a value that only differs from 0 above the value's width).
pub fn dom_shift_amounts<S: Src>(s: &mut S, bits: u32, bbits: u32) {
    let a = s.uw(bits);
    one_dom_binop!(s, IntLeft, bits, a, bbits, 1u64 << bits);
    one_dom_binop!(s, IntRight, bits, a, bbits, (bits - 1) as u64);
    one_dom_binop!(s, IntSRight, bits, a, bbits, (1u64 << bits) | 1);
    cov!(s, true, "end of harness reached");
}

/// Division through the abstract-domain wrapper with a zero divisor (concrete) and a symbolic dividend (incl. 0):
/// must report unknown of the operand width. No division circuit is needed, so this stays cheap.
pub fn dom_div_by_zero<S: Src>(s: &mut S, bits: u32) {
    let a = s.uw(bits);
    let b = 0u64;
    one_dom_binop!(s, IntDiv, bits, a, bits, b);
    one_dom_binop!(s, IntSRem, bits, a, bits, b);
    cov!(s, a == 0, "zero dividend reached");
}

/// Boolean connectives on 1-byte booleans (values 0/1).
pub fn bv_bool<S: Src>(s: &mut S) {
    let a = s.u8() as u64;
    let b = s.u8() as u64;
    s.assume(a <= 1 && b <= 1);
    one_binop!(s, BoolAnd, 8, a, 8, b);
    one_binop!(s, BoolOr, 8, a, 8, b);
    one_binop!(s, BoolXOr, 8, a, 8, b);
    cov!(s, true, "end of harness reached");
}

/// Division by zero reports unknown (all four division ops, value and domain level).
pub fn bv_div_by_zero<S: Src>(s: &mut S, bits: u32) {
    let a = s.uw(bits);
    let b = 0u64;
    one_binop!(s, IntDiv, bits, a, bits, b);
    one_binop!(s, IntRem, bits, a, bits, b);
    one_binop!(s, IntSDiv, bits, a, bits, b);
    one_binop!(s, IntSRem, bits, a, bits, b);
    cov!(s, true, "end of harness reached");
}

/// Result-width function of the IR (`Expression::bytesize`) agrees with the P-Code result width.
macro_rules! one_bytesize {
    ($s:expr, $bits:expr, [$($op:ident),*]) => {{
        $(
            let e = Expression::BinOp {
                op: BinOpType::$op,
                lhs: Box::new(Expression::Var(Variable { name: String::new(), size: ByteSize::new($bits as u64 / 8), is_temp: false })),
                rhs: Box::new(Expression::Var(Variable { name: String::new(), size: ByteSize::new($bits as u64 / 8), is_temp: false })),
            };
            chk!($s, u64::from(e.bytesize()) * 8 == ref_binop_bits(BinOpType::$op, $bits, $bits) as u64, concat!("C01 ", stringify!($op), ": Expression::bytesize differs from the P-Code result width"));
            std::mem::forget(e);
        )*
    }};
}
pub fn expr_bytesize_flags<S: Src>(s: &mut S, bits: u32) {
    // operations whose result width is not simply the width of the left operand (about 20 s of symbolic execution each)
    one_bytesize!(s, bits, [Piece, IntEqual, IntSLess, IntCarry, IntSCarry, IntSBorrow, IntAdd, IntLeft]);
    cov!(s, true, "end of harness reached");
}
pub fn expr_bytesize_cmp<S: Src>(s: &mut S, bits: u32) {
    one_bytesize!(s, bits, [IntNotEqual, IntLess, IntLessEqual, IntSLessEqual, BoolXOr, BoolAnd, BoolOr, FloatEqual, FloatNotEqual, FloatLess, FloatLessEqual]);
    cov!(s, true, "end of harness reached");
}
pub fn expr_bytesize_arith<S: Src>(s: &mut S, bits: u32) {
    one_bytesize!(s, bits, [IntSub, IntXOr, IntAnd, IntOr, IntRight, IntSRight, IntMult, IntDiv, IntRem, IntSDiv, IntSRem, FloatAdd, FloatSub, FloatMult, FloatDiv]);
    cov!(s, true, "end of harness reached");
}

/// Piece of a (abits) high part and a (bbits) low part, abits + bbits <= 64.
pub fn bv_piece<S: Src>(s: &mut S, abits: u32, bbits: u32) {
    let a = s.uw(abits);
    let b = s.uw(bbits);
    one_binop!(s, Piece, abits, a, bbits, b);
    cov!(s, true, "end of harness reached");
}

/// Piece 8+8 -> 16 bytes: compared through apint primitives (no library code in the oracle).
pub fn bv_piece_wide<S: Src>(s: &mut S) {
    let a = s.u64();
    let b = s.u64();
    s.note(&|| format!("piece a={:#x}:64 b={:#x}:64", a, b));
    match mk(64, a).bin_op(BinOpType::Piece, &mk(64, b)) {
        Ok(v) => {
            chk!(s, bv_bits(&v) == 128, "C01 Piece: result width differs from the P-Code result width");
            let lo = v.resize_to_u64();
            let hi = (v.resize_to_u128() >> 64) as u64;
            chk!(s, lo == b && hi == a, "C01 Piece: result value differs from the P-Code reference value");
            std::mem::forget(v);
        }
        Err(e) => {
            std::mem::forget(e);
            chk!(s, false, "C01 Piece: supported operation reported unknown");
        }
    }
    cov!(s, true, "end of harness reached");
}

macro_rules! one_unop {
    ($s:expr, $op:ident, $bits:expr, $a:expr) => {{
        let want = ref_unop(UnOpType::$op, $bits, $a);
        $s.note(&|| format!("unop={} a={:#x}:{} want={:?}", stringify!($op), $a, $bits, want));
        match (mk($bits, $a).un_op(UnOpType::$op), want) {
            (Ok(v), Ref::Val(bits, val)) => {
                chk!($s, bv_is(&v, bits, val), concat!("C01 ", stringify!($op), ": result value differs from the P-Code reference value"));
            }
            (Ok(_), Ref::Unknown) => chk!($s, false, concat!("C01 ", stringify!($op), ": unsupported operation returned a value instead of unknown")),
            (Err(e), Ref::Val(..)) => { std::mem::forget(e); chk!($s, false, concat!("C01 ", stringify!($op), ": supported operation reported unknown")); }
            (Err(e), Ref::Unknown) => { std::mem::forget(e); }
        }
    }};
}
macro_rules! one_dom_unop {
    ($s:expr, $op:ident, $bits:expr, $a:expr) => {{
        let want = ref_unop(UnOpType::$op, $bits, $a);
        $s.note(&|| format!("domain unop={} a={:#x}:{} want={:?}", stringify!($op), $a, $bits, want));
        let rbits: u64 = if matches!(UnOpType::$op, UnOpType::FloatNaN | UnOpType::BoolNegate) { 8 } else { $bits as u64 };
        match (BitvectorDomain::Value(mk($bits, $a)).un_op(UnOpType::$op), want) {
            (BitvectorDomain::Value(v), Ref::Val(wb, wv)) => chk!($s, bv_is(&v, wb, wv), concat!("C01 ", stringify!($op), ": domain result value differs from the P-Code reference value")),
            (BitvectorDomain::Value(_), Ref::Unknown) => chk!($s, false, concat!("C01 ", stringify!($op), ": domain returned a value for an unsupported operation")),
            (BitvectorDomain::Top(_), Ref::Val(..)) => chk!($s, false, concat!("C01 ", stringify!($op), ": domain reported unknown for a supported operation on known operands")),
            (BitvectorDomain::Top(sz), Ref::Unknown) => chk!($s, u64::from(sz) * 8 == rbits, concat!("C01 ", stringify!($op), ": unknown result has the wrong width")),
        }
        match BitvectorDomain::Top(ByteSize::new($bits as u64 / 8)).un_op(UnOpType::$op) {
            BitvectorDomain::Top(sz) => chk!($s, u64::from(sz) * 8 == rbits, concat!("C01 ", stringify!($op), ": unknown result has the wrong width")),
            BitvectorDomain::Value(_) => chk!($s, false, concat!("C01 ", stringify!($op), ": domain returned a value for an unknown operand")),
        }
    }};
}

/// Unary operations.
pub fn bv_unop<S: Src>(s: &mut S, bits: u32) {
    let a = s.uw(bits);
    one_unop!(s, Int2Comp, bits, a);
    one_unop!(s, IntNegate, bits, a);
    one_unop!(s, FloatNegate, bits, a);
    one_unop!(s, FloatAbs, bits, a);
    one_unop!(s, FloatSqrt, bits, a);
    one_unop!(s, FloatCeil, bits, a);
    one_unop!(s, FloatFloor, bits, a);
    one_unop!(s, FloatRound, bits, a);
    one_unop!(s, FloatNaN, bits, a);
    cov!(s, true, "end of harness reached");
}

pub fn bv_boolnegate<S: Src>(s: &mut S) {
    let a = s.u8() as u64;
    s.assume(a <= 1);
    one_unop!(s, BoolNegate, 8, a);
    cov!(s, true, "end of harness reached");
}

macro_rules! one_cast {
    ($s:expr, $k:ident, $bits:expr, $a:expr, $out:expr) => {{
        let want = ref_cast(CastOpType::$k, $bits, $a, $out);
        let osz = ByteSize::new($out as u64 / 8);
        $s.note(&|| format!("cast={} a={:#x}:{} -> {} want={:?}", stringify!($k), $a, $bits, $out, want));
        match (mk($bits, $a).cast(CastOpType::$k, osz), want) {
            (Ok(v), Ref::Val(bits, val)) => {
                chk!($s, bv_is(&v, bits, val), concat!("C01 ", stringify!($k), ": result value differs from the P-Code reference value"));
            }
            (Ok(_), Ref::Unknown) => chk!($s, false, concat!("C01 ", stringify!($k), ": unsupported operation returned a value instead of unknown")),
            (Err(e), Ref::Val(..)) => { std::mem::forget(e); chk!($s, false, concat!("C01 ", stringify!($k), ": supported operation reported unknown")); }
            (Err(e), Ref::Unknown) => { std::mem::forget(e); }
        }
    }};
}
macro_rules! one_dom_cast {
    ($s:expr, $k:ident, $bits:expr, $a:expr, $out:expr) => {{
        let want = ref_cast(CastOpType::$k, $bits, $a, $out);
        let osz = ByteSize::new($out as u64 / 8);
        $s.note(&|| format!("domain cast={} a={:#x}:{} -> {} want={:?}", stringify!($k), $a, $bits, $out, want));
        match (BitvectorDomain::Value(mk($bits, $a)).cast(CastOpType::$k, osz), want) {
            (BitvectorDomain::Value(v), Ref::Val(wb, wv)) => chk!($s, bv_is(&v, wb, wv), concat!("C01 ", stringify!($k), ": domain result value differs from the P-Code reference value")),
            (BitvectorDomain::Value(_), Ref::Unknown) => chk!($s, false, concat!("C01 ", stringify!($k), ": domain returned a value for an unsupported operation")),
            (BitvectorDomain::Top(_), Ref::Val(..)) => chk!($s, false, concat!("C01 ", stringify!($k), ": domain reported unknown for a supported operation on known operands")),
            (BitvectorDomain::Top(sz), Ref::Unknown) => chk!($s, u64::from(sz) * 8 == $out as u64, concat!("C01 ", stringify!($k), ": unknown result has the wrong width")),
        }
        match BitvectorDomain::Top(ByteSize::new($bits as u64 / 8)).cast(CastOpType::$k, osz) {
            BitvectorDomain::Top(sz) => chk!($s, u64::from(sz) * 8 == $out as u64, concat!("C01 ", stringify!($k), ": unknown result has the wrong width")),
            BitvectorDomain::Value(_) => chk!($s, false, concat!("C01 ", stringify!($k), ": domain returned a value for an unknown operand")),
        }
    }};
}

/// Casts from `bits` to `out_bits` (>= bits): extensions, counts, float casts.
pub fn bv_cast<S: Src>(s: &mut S, bits: u32, out_bits: u32) {
    let a = s.uw(bits);
    one_cast!(s, IntZExt, bits, a, out_bits);
    one_cast!(s, IntSExt, bits, a, out_bits);
    one_cast!(s, PopCount, bits, a, out_bits);
    one_cast!(s, LzCount, bits, a, out_bits);
    one_cast!(s, Int2Float, bits, a, out_bits);
    one_cast!(s, Float2Float, bits, a, out_bits);
    one_cast!(s, Trunc, bits, a, out_bits);
    cov!(s, true, "end of harness reached");
}

/// Count casts into a narrower result (e.g. 8-byte operand, 1-byte count).
pub fn bv_count_narrow<S: Src>(s: &mut S, bits: u32, out_bits: u32) {
    let a = s.uw(bits);
    one_cast!(s, PopCount, bits, a, out_bits);
    one_cast!(s, LzCount, bits, a, out_bits);
    one_cast!(s, Trunc, bits, a, out_bits);
    cov!(s, true, "end of harness reached");
}

fn subpiece_one<S: Src>(s: &mut S, bits: u32, a: u64, low: u32, size: u32) {
    s.note(&|| format!("subpiece a={:#x}:{} low_byte={} size={}", a, bits, low, size));
    let want = (a >> (8 * low)) & mask(8 * size);
    let got = mk(bits, a).subpiece(ByteSize::new(low as u64), ByteSize::new(size as u64));
    chk!(s, bv_is(&got, 8 * size, want), "C01 Subpiece: result differs from the P-Code reference value");
}
fn dom_subpiece_one<S: Src>(s: &mut S, bits: u32, a: u64, low: u32, size: u32) {
    s.note(&|| format!("domain subpiece a={:#x}:{} low_byte={} size={}", a, bits, low, size));
    let want = (a >> (8 * low)) & mask(8 * size);
    match BitvectorDomain::Value(mk(bits, a)).subpiece(ByteSize::new(low as u64), ByteSize::new(size as u64)) {
        BitvectorDomain::Value(g) => chk!(s, bv_is(&g, 8 * size, want), "C01 Subpiece: domain result differs from the P-Code reference value"),
        BitvectorDomain::Top(_) => chk!(s, false, "C01 Subpiece: domain reported unknown for a known operand"),
    }
    match BitvectorDomain::Top(ByteSize::new(bits as u64 / 8)).subpiece(ByteSize::new(low as u64), ByteSize::new(size as u64)) {
        BitvectorDomain::Top(sz) => chk!(s, u64::from(sz) == size as u64, "C01 Subpiece: unknown result has the wrong width"),
        BitvectorDomain::Value(_) => chk!(s, false, "C01 Subpiece: domain returned a value for an unknown operand"),
    }
}

/// Subpiece: (low_byte, size) combinations for an operand of `bits`.
pub fn bv_subpiece<S: Src>(s: &mut S, bits: u32) {
    let a = s.uw(bits);
    match bits {
        16 => {
            subpiece_one(s, bits, a, 0, 1);
            subpiece_one(s, bits, a, 1, 1);
            subpiece_one(s, bits, a, 0, 2);
        }
        32 => {
            subpiece_one(s, bits, a, 0, 1);
            subpiece_one(s, bits, a, 1, 2);
            subpiece_one(s, bits, a, 2, 2);
            subpiece_one(s, bits, a, 3, 1);
            subpiece_one(s, bits, a, 0, 4);
            subpiece_one(s, bits, a, 1, 3);
        }
        _ => {
            subpiece_one(s, bits, a, 0, 4);
            subpiece_one(s, bits, a, 4, 4);
            subpiece_one(s, bits, a, 7, 1);
            subpiece_one(s, bits, a, 2, 2);
            subpiece_one(s, bits, a, 1, 4);
            subpiece_one(s, bits, a, 0, 8);
            subpiece_one(s, bits, a, 3, 5);
        }
    }
    cov!(s, true, "end of harness reached");
}

/// Abstract-domain wrapper for unary ops, casts and subpiece (one call each).
pub fn dom_unop_2comp<S: Src>(s: &mut S, bits: u32) {
    let a = s.uw(bits);
    one_dom_unop!(s, Int2Comp, bits, a);
    cov!(s, true, "end of harness reached");
}
pub fn dom_unop_negate<S: Src>(s: &mut S, bits: u32) {
    let a = s.uw(bits);
    one_dom_unop!(s, IntNegate, bits, a);
    cov!(s, true, "end of harness reached");
}
pub fn dom_unop_float<S: Src>(s: &mut S, bits: u32) {
    let a = s.uw(bits);
    one_dom_unop!(s, FloatNaN, bits, a);
    one_dom_unop!(s, FloatSqrt, bits, a);
    cov!(s, true, "end of harness reached");
}
pub fn dom_boolnegate<S: Src>(s: &mut S) {
    let a = s.u8() as u64;
    s.assume(a <= 1);
    one_dom_unop!(s, BoolNegate, 8, a);
    cov!(s, true, "end of harness reached");
}
pub fn dom_cast_zext<S: Src>(s: &mut S, bits: u32, out: u32) {
    let a = s.uw(bits);
    one_dom_cast!(s, IntZExt, bits, a, out);
    cov!(s, true, "end of harness reached");
}
pub fn dom_cast_sext<S: Src>(s: &mut S, bits: u32, out: u32) {
    let a = s.uw(bits);
    one_dom_cast!(s, IntSExt, bits, a, out);
    cov!(s, true, "end of harness reached");
}
pub fn dom_cast_popcount<S: Src>(s: &mut S, bits: u32, out: u32) {
    let a = s.uw(bits);
    one_dom_cast!(s, PopCount, bits, a, out);
    cov!(s, true, "end of harness reached");
}
pub fn dom_cast_lzcount<S: Src>(s: &mut S, bits: u32, out: u32) {
    let a = s.uw(bits);
    one_dom_cast!(s, LzCount, bits, a, out);
    cov!(s, true, "end of harness reached");
}
pub fn dom_cast_float<S: Src>(s: &mut S, bits: u32, out: u32) {
    let a = s.uw(bits);
    one_dom_cast!(s, Int2Float, bits, a, out);
    one_dom_cast!(s, Trunc, bits, a, out);
    cov!(s, true, "end of harness reached");
}
pub fn dom_subpiece<S: Src>(s: &mut S, bits: u32, low: u32, size: u32) {
    let a = s.uw(bits);
    dom_subpiece_one(s, bits, a, low, size);
    cov!(s, true, "end of harness reached");
}

/// Resizing helpers used by constant folding of casts.
pub fn bv_resize<S: Src>(s: &mut S, bits: u32, out_bits: u32) {
    let a = s.uw(bits);
    s.note(&|| format!("resize a={:#x}:{} -> {}", a, bits, out_bits));
    let u = mk(bits, a).into_resize_unsigned(ByteSize::new(out_bits as u64 / 8));
    let g = mk(bits, a).into_resize_signed(ByteSize::new(out_bits as u64 / 8));
    chk!(s, bv_is(&u, out_bits, a & mask(out_bits)), "C01 resize: unsigned resize differs from zero-extension/truncation");
    chk!(s, bv_is(&g, out_bits, sext(a, bits) as u64 & mask(out_bits)), "C01 resize: signed resize differs from sign-extension/truncation");
    cov!(s, true, "end of harness reached");
}

macro_rules! one_wide_unknown {
    ($s:expr, $op:ident, $a:expr, $b:expr) => {{
        match $a.bin_op(BinOpType::$op, &$b) {
            Ok(v) => { std::mem::forget(v); chk!($s, false, concat!("C01 ", stringify!($op), ": 16-byte operation returned a value instead of unknown")) }
            Err(e) => std::mem::forget(e),
        }
        match BitvectorDomain::Value($a.clone()).bin_op(BinOpType::$op, &BitvectorDomain::Value($b.clone())) {
            BitvectorDomain::Value(v) => { std::mem::forget(v); chk!($s, false, concat!("C01 ", stringify!($op), ": domain returned a value for an unsupported 16-byte operation")) }
            BitvectorDomain::Top(sz) => chk!($s, u64::from(sz) * 8 == ref_binop_bits(BinOpType::$op, 128, 128) as u64, concat!("C01 ", stringify!($op), ": unknown result has the wrong width")),
        }
    }};
}

/// 16-byte operands: multiplication/division and float ops must report unknown.
pub fn bv_wide<S: Src>(s: &mut S) {
    let (ah, al, bh, bl) = (s.u64(), s.u64(), s.u64(), s.u64());
    s.note(&|| format!("wide a={:#x}{:016x} b={:#x}{:016x}", ah, al, bh, bl));
    let a = Bitvector::from_u128(((ah as u128) << 64) | al as u128);
    let b = Bitvector::from_u128(((bh as u128) << 64) | bl as u128);
    one_wide_unknown!(s, IntMult, a, b);
    one_wide_unknown!(s, IntDiv, a, b);
    one_wide_unknown!(s, IntRem, a, b);
    one_wide_unknown!(s, IntSDiv, a, b);
    one_wide_unknown!(s, IntSRem, a, b);
    one_wide_unknown!(s, FloatAdd, a, b);
    one_wide_unknown!(s, FloatLess, a, b);
    std::mem::forget((a, b));
    cov!(s, true, "end of harness reached");
}

macro_rules! one_wide_exact {
    ($s:expr, $op:ident, $a:expr, $b:expr, $wbits:expr, $want:expr) => {{
        match Bitvector::from_u128($a).bin_op(BinOpType::$op, &Bitvector::from_u128($b)) {
            Ok(v) => {
                chk!($s, bv_bits(&v) == $wbits, concat!("C01 ", stringify!($op), ": result width differs from the P-Code result width (16-byte operands)"));
                chk!($s, v.resize_to_u128() == $want, concat!("C01 ", stringify!($op), ": result value differs from the P-Code reference value (16-byte operands)"));
                std::mem::forget(v);
            }
            Err(e) => { std::mem::forget(e); chk!($s, false, concat!("C01 ", stringify!($op), ": supported operation reported unknown (16-byte operands)")); }
        }
    }};
}

/// 16-byte add/sub/bitwise and comparisons against u128 arithmetic.
pub fn bv_wide_exact<S: Src>(s: &mut S) {
    let (ah, al, bh, bl) = (s.u64(), s.u64(), s.u64(), s.u64());
    s.note(&|| format!("wide a={:#x}{:016x} b={:#x}{:016x}", ah, al, bh, bl));
    let a = ((ah as u128) << 64) | al as u128;
    let b = ((bh as u128) << 64) | bl as u128;
    one_wide_exact!(s, IntAdd, a, b, 128, a.wrapping_add(b));
    one_wide_exact!(s, IntSub, a, b, 128, a.wrapping_sub(b));
    one_wide_exact!(s, IntAnd, a, b, 128, a & b);
    one_wide_exact!(s, IntXOr, a, b, 128, a ^ b);
    one_wide_exact!(s, IntEqual, a, b, 8, (a == b) as u128);
    one_wide_exact!(s, IntLess, a, b, 8, (a < b) as u128);
    one_wide_exact!(s, IntSLess, a, b, 8, ((a as i128) < (b as i128)) as u128);
    cov!(s, true, "end of harness reached");
}

crate::harnesses! {
    @quick c01_arith_8[4] => bv_arith(8, 8);
    c01_arith_16[4] => bv_arith(16, 16);
    c01_arith_32[4] => bv_arith(32, 32);
    @quick c01_arith_64[4] => bv_arith(64, 64);
    @quick c01_mul_8[4] => bv_mul(8, 8);
    c01_mul_16[4] => bv_mul(16, 16);
    c01_mul_32[4] => bv_mul(32, 32);
    @quick c01_mul_64[4] => bv_mul(64, 64);
    @quick c01_shift_8[4] => bv_shift(8, 8);
    c01_shift_16[4] => bv_shift(16, 16);
    c01_shift_32[4] => bv_shift(32, 32);
    @quick c01_shift_64[4] => bv_shift(64, 64);
    @quick c01_cmp_8[4] => bv_cmp(8, 8);
    c01_cmp_16[4] => bv_cmp(16, 16);
    c01_cmp_32[4] => bv_cmp(32, 32);
    @quick c01_cmp_64[4] => bv_cmp(64, 64);
    @quick c01_flags_8[4] => bv_flags(8, 8);
    c01_flags_16[4] => bv_flags(16, 16);
    c01_flags_32[4] => bv_flags(32, 32);
    @quick c01_flags_64[4] => bv_flags(64, 64);
    c01_float_8[4] => bv_float(8, 8);
    @quick c01_float_32[4] => bv_float(32, 32);
    c01_float_64[4] => bv_float(64, 64);
    c01_divzero_8[4] => bv_div_by_zero(8);
    c01_divzero_32[4] => bv_div_by_zero(32);
    @quick c01_divzero_64[4] => bv_div_by_zero(64);
    @quick c01_shift_64_by8[4] => bv_shift(64, 8);
    c01_shift_32_by8[4] => bv_shift(32, 8);
    @quick c01_shift_8_by64[4] => bv_shift(8, 64);
    @quick c01_udiv_8[4] => bv_udiv(8, 8);
    c01_udiv_16[4] => bv_udiv(16, 16);
    @quick c01_sdiv_8[4] => bv_sdiv(8, 8);
    c01_sdiv_16[4] => bv_sdiv(16, 16);
    @quick c01_bool[4] => bv_bool();
    c01_piece_8_8[4] => bv_piece(8, 8);
    c01_piece_16_16[4] => bv_piece(16, 16);
    @quick c01_piece_32_32[4] => bv_piece(32, 32);
    @quick c01_piece_8_32[4] => bv_piece(8, 32);
    c01_piece_32_16[4] => bv_piece(32, 16);
    @quick c01_unop_8[4] => bv_unop(8);
    c01_unop_16[4] => bv_unop(16);
    c01_unop_32[4] => bv_unop(32);
    @quick c01_unop_64[4] => bv_unop(64);
    @quick c01_boolnegate[4] => bv_boolnegate();
    c01_cast_8_16[4] => bv_cast(8, 16);
    @quick c01_cast_8_64[4] => bv_cast(8, 64);
    c01_cast_16_32[4] => bv_cast(16, 32);
    @quick c01_cast_32_64[4] => bv_cast(32, 64);
    c01_cast_64_64[4] => bv_cast(64, 64);
    @quick c01_cast_8_8[4] => bv_cast(8, 8);
    c01_cast_32_32[4] => bv_cast(32, 32);
    @quick c01_count_64_8[4] => bv_count_narrow(64, 8);
    c01_count_32_8[4] => bv_count_narrow(32, 8);
    c01_count_16_8[4] => bv_count_narrow(16, 8);
    c01_subpiece_16[4] => bv_subpiece(16);
    c01_subpiece_32[4] => bv_subpiece(32);
    @quick c01_subpiece_64[4] => bv_subpiece(64);
    c01_resize_8_32[4] => bv_resize(8, 32);
    @quick c01_resize_64_16[4] => bv_resize(64, 16);
    c01_resize_32_32[4] => bv_resize(32, 32);
    // Expression::bytesize (result width of every binary operation, concrete operand widths)
    @quick c01_bytesize_flags_32[4] => expr_bytesize_flags(32);
    c01_bytesize_cmp_32[4] => expr_bytesize_cmp(32);
    c01_bytesize_arith_64[4] => expr_bytesize_arith(64);
    // (shifts through the domain wrapper with a shift amount of another width than the value are out of reach: a symbolic
    //  amount ran CBMC out of memory at 56 GB, concrete amounts did not finish in 15 min -- `dom_shift_amounts` is kept unregistered)
    @quick c01_dom_add_8[4] => dom_add(8, 8);
    c01_dom_add_64[4] => dom_add(64, 64);
    c01_dom_xor_32[4] => dom_xor(32, 32);
    c01_dom_mult_16[4] => dom_mult(16, 16);
    @quick c01_dom_less_16[4] => dom_less(16, 16);
    c01_dom_sless_64[4] => dom_sless(64, 64);
    c01_dom_equal_32[4] => dom_equal(32, 32);
    c01_dom_srem_8[4] => dom_srem(8, 8);
    @quick c01_dom_fadd_32[4] => dom_fadd(32, 32);
    @quick c01_dom_divzero_8[4] => dom_div_by_zero(8);
    c01_dom_fless_64[4] => dom_fless(64, 64);
    c01_dom_boolor[4] => dom_boolor(8, 8);
    c01_dom_negate_8[4] => dom_unop_negate(8);
    c01_dom_unop_float_64[4] => dom_unop_float(64);
    @quick c01_dom_boolnegate[4] => dom_boolnegate();
    c01_dom_popcount_64_8[4] => dom_cast_popcount(64, 8);
    @quick c01_dom_popcount_8_8[4] => dom_cast_popcount(8, 8);
    @quick c01_dom_lzcount_32_32[4] => dom_cast_lzcount(32, 32);
    c01_dom_lzcount_16_8[4] => dom_cast_lzcount(16, 8);
    @quick c01_dom_cast_float_32_32[4] => dom_cast_float(32, 32);
    c01_dom_cast_float_32_64[4] => dom_cast_float(32, 64);
}
