//! Kani proof harnesses over the real `cwe_checker_lib` code (engine K of /verif/DESIGN.md).
//! Natively (no features needed) every module is compiled so that the replay binary knows all harnesses;
//! under Kani only the module selected by a cargo feature is compiled.
#![allow(clippy::all)]
#![allow(unused)]
#![cfg_attr(kani, feature(error_generic_member_access))]

#[macro_use]
pub mod common;
#[cfg(any(not(kani), feature = "c01"))]
pub mod c01;
#[cfg(any(not(kani), feature = "c02", feature = "c03", feature = "c04"))]
pub mod c02;
#[cfg(any(not(kani), feature = "c03"))]
pub mod c03;
#[cfg(any(not(kani), feature = "c04"))]
pub mod c04;
#[cfg(any(not(kani), feature = "c19"))]
pub mod c19;
#[cfg(any(not(kani), feature = "probe"))]
pub mod probe;

/// All harnesses that can be replayed natively.
#[cfg(not(kani))]
pub fn registry() -> Vec<(&'static str, common::ReplayFn)> {
    let mut v = Vec::new();
    v.extend_from_slice(c01::REPLAY);
    v.extend_from_slice(c02::REPLAY);
    v.extend_from_slice(c03::REPLAY);
    v.extend_from_slice(c04::REPLAY);
    v.extend_from_slice(c19::REPLAY);
    v.extend_from_slice(probe::REPLAY);
    v
}
